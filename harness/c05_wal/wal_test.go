package c05

// C05 — WAL reopen after a crash returns exactly a durable prefix.
//
// One rapid case = one save history, executed by the real WAL in a worker process under
// strace. From the observed system calls the harness builds crash images (what a crash
// at that instant can leave on disk) and reopens each image with the production
// sequence (node/raft.go openWAL): Open -> ReadAll; on error Close, Repair once, again.
// Accepted: a loud failure, or exactly replay(records[0:p]) for a p that is not below
// everything saved before the last completed sync.

import (
	"encoding/json"
	"fmt"
	"hash/fnv"
	"os"
	"path/filepath"
	"runtime/debug"
	"sort"
	"strings"
	"testing"

	"github.com/youzan/ZanRedisDB/raft/raftpb"
	"github.com/youzan/ZanRedisDB/wal"
	"github.com/youzan/ZanRedisDB/wal/walpb"
	"pgregory.net/rapid"

	"verifharness/lib/known"
	"verifharness/lib/stats"
)

const sector = 512

// known findings (see TestKnown* for the minimal inputs)
const (
	// the record type is outside the record checksum
	kfType = "C05-record-type-not-checksummed"
	// optimizedFsync: a Save that must fsync (term/vote change) but also rolls the segment returns without any fdatasync
	kfCut = "C05-optfsync-cut-skips-sync"
)

func TestMain(m *testing.M) {
	if p := os.Getenv("VERIF_C05_WORKER"); p != "" {
		workerMain(p)
		return
	}
	wal.VerifQuietLog()
	debug.SetGCPercent(400) // every Open allocates ~2 MiB of buffers; collect less often
	stats.Main(m)
}

var (
	recCrash = stats.New("crash_images", "crash images of generated save histories built from the observed write/fdatasync/ftruncate/rename/fsync(dir) calls: "+
		"at every syscall boundary the images {nothing unsynced, everything written}; after every write the unsynced tail cut at every sector and record boundary; "+
		"for the last write and drawn other writes of each history the tail cut at EVERY byte offset (windowed above the cap named in label tail_windowed) and every present/absent pattern over up to 6 unsynced sectors; "+
		"zero-filled and (sampled) truncated-file variants; new segment name durable or not between rename and directory fsync. "+
		"non-trivial = the cut lies strictly inside a record, or bytes are missing in more than one segment or in a segment that is not the last, or a present sector follows an absent one")
	recFlip = stats.New("bit_flips", "single bit flips in the synced region of an image that is otherwise complete, positions drawn per byte class "+
		"(length field, record type, crc, data length, data, padding, first zero word after the last record) over all segments; accepted: error or replay of any prefix; "+
		"non-trivial = the flipped bit lies in a record that precedes the last synced record")
)

func scratchDir(prefix string) string {
	root := os.Getenv("VERIF_SCRATCH")
	if root == "" {
		root = "/dev/shm"
	}
	os.MkdirAll(root, 0755)
	d, err := os.MkdirTemp(root, prefix)
	if err != nil {
		harnessDie("scratch dir: %v", err)
	}
	return d
}

// harnessDie: the check could not run (never a violation).
func harnessDie(format string, a ...interface{}) {
	fmt.Printf("HARNESS: "+format+"\n", a...)
	stats.FlushAll()
	os.Exit(3)
}

type tierCfg struct {
	gen         genCfg
	fullCap     int // a tail up to this many bytes is cut at every byte offset; longer tails are windowed
	fullExtra   int // drawn additional write instants with full enumeration (besides the last write)
	flips       int // bit flips per history
	altEvery    int // every n-th image is also opened at another valid snapshot
	imageBudget int // upper bound of images per history (light enumeration is thinned first)
}

func cfgOfTier() tierCfg {
	if os.Getenv("VERIF_TIER") == "thorough" {
		return tierCfg{gen: genCfg{maxOps: 40, bigProb: 30, maxBytes: 3}, fullCap: 2200, fullExtra: 3, flips: 160, altEvery: 3, imageBudget: 9000}
	}
	return tierCfg{gen: genCfg{maxOps: 26, bigProb: 12, maxBytes: 3}, fullCap: 700, fullExtra: 1, flips: 48, altEvery: 4, imageBudget: 1600}
}

// ---- history ---------------------------------------------------------------------

type history struct {
	sc      *scriptSpec
	opt     bool
	recs    []record
	opEnd   []int
	tr      *traced
	states  []crashState
	promise []int // per op: number of records the API promises durable when the op has returned (0 = no promise)
	labels  map[string]bool
	scHash  string
	// caches
	keys      map[string]map[string][]int // snapshot -> replay key -> prefixes with that key (ascending)
	vkey      map[string][]int            // validSnaps key -> prefixes (ascending)
	segs      []int                       // file ids of wal segments at the end, in sequence order
	truncated bool                        // crash instants cut short because of a known finding
}

// firstSyncingSaveWithCut returns the index of the first trace event of the first save op
// that promises durability and during which a segment was rolled (rename), or -1.
func (h *history) firstSyncingSaveWithCut() int {
	opStart := 0 // first event after the previous "ok" marker
	for i, e := range h.tr.events {
		if e.kind != evMarker {
			continue
		}
		var op int
		var rest string
		if n, _ := fmt.Sscanf(e.name, "%d%s", &op, &rest); n == 2 && rest == "ok" {
			if op < len(h.promise) && h.sc.Ops[op].K == "save" && h.promise[op] > 0 {
				for _, x := range h.tr.events[opStart:i] {
					if x.kind == evRename {
						return opStart
					}
				}
			}
		}
		opStart = i + 1
	}
	return -1
}

func snapKey(s walpb.Snapshot) string { return fmt.Sprintf("%d/%d", s.Index, s.Term) }

func (h *history) replayKeys(s walpb.Snapshot) map[string][]int {
	k := snapKey(s)
	if m, ok := h.keys[k]; ok {
		return m
	}
	m := map[string][]int{}
	for p := 0; p <= len(h.recs); p++ {
		r := replay(h.recs[:p], s.Index, s.Term)
		if r.ok {
			hk := hashKey(r.key())
			m[hk] = append(m[hk], p)
		}
	}
	h.keys[k] = m
	return m
}

// pick returns a prefix length in [lo, hi] from an ascending list (the largest one), or
// the largest below lo / smallest above hi with ok=false.
func pick(ps []int, lo, hi int) (p int, ok bool) {
	p = -1
	for _, x := range ps {
		if x >= lo && x <= hi {
			p, ok = x, true
		}
	}
	if !ok && len(ps) > 0 {
		p = ps[len(ps)-1]
		for _, x := range ps {
			if x > hi {
				p = x
				break
			}
		}
		for _, x := range ps {
			if x < lo {
				p = x
			}
		}
	}
	return
}

// writtenRecords: number of saved records whose bytes had all been written at cs (no
// reader can return more than that).
func (h *history) writtenRecords(cs *crashState) int {
	n := 0
	for n < len(h.recs) {
		r := &h.recs[n]
		if r.file < 0 || r.end > cs.files[r.file].written {
			break
		}
		n++
	}
	return n
}

func hashKey(s string) string {
	f := fnv.New128a()
	f.Write([]byte(s))
	return string(f.Sum(nil))
}

func (h *history) validSnapKeys() map[string][]int {
	if h.vkey == nil {
		h.vkey = map[string][]int{}
		for p := 0; p <= len(h.recs); p++ {
			k := validSnaps(h.recs[:p])
			h.vkey[k] = append(h.vkey[k], p)
		}
	}
	return h.vkey
}

// promises: what each API call guarantees durable on return, derived from the documented
// policy (raft.MustSync; optimizedFsync syncs only on term/vote change, Sync and Close).
func promisesOf(ops []opSpec, opEnd []int) []int {
	out := make([]int, len(ops))
	var prev hsSpec
	opt := false
	for i, o := range ops {
		p := false
		switch o.K {
		case "create":
			opt = o.Opt
			p = !opt
		case "save":
			st := hsSpec{}
			if o.St != nil {
				st = *o.St
			}
			empty := st == hsSpec{}
			changed := !empty && (st.Vote != prev.Vote || st.Term != prev.Term)
			if opt {
				p = changed
			} else {
				p = len(o.Ents) > 0 || changed
			}
			if !empty {
				prev = st
			}
		case "snap":
			p = !opt
		case "sync", "close", "reopen":
			p = true
		}
		if p {
			out[i] = opEnd[i]
		}
	}
	return out
}

// lowerBound: number of saved records that the returned prefix has to contain for a
// crash at state cs: everything written before the start of the last completed sync
// (observed) and everything an already returned API call promised durable.
func (h *history) lowerBound(cs *crashState) (obs, contract int) {
	if cs.anySync {
		for obs < len(h.recs) {
			r := &h.recs[obs]
			if r.file < 0 || r.end > cs.lastSyncWritten[r.file] {
				break
			}
			obs++
		}
	}
	seen := 0
	for _, e := range h.tr.events[:cs.ev+1] {
		if e.kind != evMarker {
			continue
		}
		var i int
		var rest string
		if n, _ := fmt.Sscanf(e.name, "%d%s", &i, &rest); n >= 1 && i < len(h.promise) {
			if (rest == "ok" || rest == ".closed") && h.promise[i] > contract {
				contract = h.promise[i]
			}
		}
		seen++
	}
	return
}

// ---- images ----------------------------------------------------------------------

// chunk: an unsynced byte range of one file that lies within one 512-byte sector
type chunk struct {
	file int
	a, b int64
}

func (h *history) unsyncedChunks(cs *crashState) []chunk {
	var out []chunk
	for _, e := range h.tr.events[:cs.ev+1] {
		if e.kind != evWrite {
			continue
		}
		fs := &cs.files[e.file]
		a, b := e.off, e.off+e.n
		if a < fs.synced {
			a = fs.synced
		}
		for a < b {
			end := (a/sector + 1) * sector
			if end > b {
				end = b
			}
			out = append(out, chunk{e.file, a, end})
			a = end
		}
	}
	return out
}

type image struct {
	cs       *crashState
	chunks   []chunk
	mask     []bool // present chunks (nil with cutBytes >= 0)
	cut      int64  // prefix in write order: this many unsynced bytes are present; -1 = use mask
	trunc    bool   // the file holding the cut ends at the cut (instead of zeros up to its size)
	oldName  bool   // a rename not yet covered by a directory fsync did not happen
	flipFile int
	flipOff  int64 // -1 none
	flipBit  uint
	kind     string
}

func (im *image) describe(h *history) string {
	var b strings.Builder
	fmt.Fprintf(&b, "%s after trace event %d (%s);", im.kind, im.cs.ev, h.tr.events[im.cs.ev])
	for i, f := range im.cs.files {
		if f.name == "" {
			continue
		}
		fmt.Fprintf(&b, " %s{size %d written %d synced %d}", f.name, f.size, f.written, f.synced)
		_ = i
	}
	if im.cut >= 0 {
		fmt.Fprintf(&b, " first %d unsynced bytes present", im.cut)
		if im.trunc {
			b.WriteString(", file truncated there")
		}
	} else if im.mask != nil {
		b.WriteString(" unsynced sectors present:")
		for i, c := range im.chunks {
			m := 0
			if im.mask[i] {
				m = 1
			}
			fmt.Fprintf(&b, " f%d[%d:%d]=%d", c.file, c.a, c.b, m)
		}
	}
	if im.oldName {
		b.WriteString(" rename not durable")
	}
	if im.flipOff >= 0 {
		fmt.Fprintf(&b, " bit %d of byte %d of %s flipped", im.flipBit, im.flipOff, im.cs.files[im.flipFile].name)
	}
	return b.String()
}

// present ranges of the unsynced chunks under this image
func (im *image) ranges() []chunk {
	var out []chunk
	if im.cut >= 0 {
		left := im.cut
		for _, c := range im.chunks {
			if left <= 0 {
				break
			}
			n := c.b - c.a
			if n > left {
				n = left
			}
			out = append(out, chunk{c.file, c.a, c.a + n})
			left -= n
		}
		return out
	}
	for i, c := range im.chunks {
		if im.mask[i] {
			out = append(out, c)
		}
	}
	return out
}

// files of the image: name -> content
func (h *history) materialize(im *image) map[string][]byte {
	out := map[string][]byte{}
	rs := im.ranges()
	for fi, fs := range im.cs.files {
		name := fs.name
		if im.oldName && fs.oldName != "" {
			name = fs.oldName
		}
		if name == "" {
			continue
		}
		final := h.tr.files[fi].final
		size := fs.size
		var truncAt int64 = -1
		if im.trunc && im.cut >= 0 {
			// the file in which the cut falls ends there
			left := im.cut
			for _, c := range im.chunks {
				n := c.b - c.a
				if left <= n {
					if c.file == fi {
						truncAt = c.a + left
					}
					break
				}
				left -= n
			}
		}
		if truncAt >= 0 && truncAt < size {
			size = truncAt
		}
		d := make([]byte, size)
		copy(d, final[:min64(fs.synced, int64(len(final)))])
		for _, r := range rs {
			if r.file == fi && r.a < size {
				copy(d[r.a:min64(r.b, size)], final[r.a:min64(r.b, int64(len(final)))])
			}
		}
		if im.flipOff >= 0 && im.flipFile == fi && im.flipOff < int64(len(d)) {
			d[im.flipOff] ^= 1 << im.flipBit
		}
		out[name] = d
	}
	return out
}

func min64(a, b int64) int64 {
	if a < b {
		return a
	}
	return b
}

func writeImage(dir string, files map[string][]byte) {
	os.RemoveAll(dir)
	if err := os.MkdirAll(dir, 0700); err != nil {
		harnessDie("mkdir image: %v", err)
	}
	for n, d := range files {
		if err := os.WriteFile(filepath.Join(dir, n), d, 0600); err != nil {
			harnessDie("write image: %v", err)
		}
	}
}

// classification of an image for the non-trivial rule and the labels
type imgClass struct {
	insideRecord bool
	multiSeg     bool
	hole         bool
	byteGranular bool
	anyMissing   bool
}

func (h *history) classify(im *image) imgClass {
	var c imgClass
	presentEnd := map[[2]int64]int64{}
	for _, r := range im.ranges() {
		presentEnd[[2]int64{int64(r.file), r.a}] = r.b
	}
	lastWal := -1
	var lastSeq uint64
	for fi, fs := range im.cs.files {
		var seq, idx uint64
		name := fs.name
		if im.oldName && fs.oldName != "" {
			name = fs.oldName
		}
		if n, _ := fmt.Sscanf(name, "%016x-%016x.wal", &seq, &idx); n == 2 && strings.HasSuffix(name, ".wal") && (lastWal < 0 || seq >= lastSeq) {
			lastWal, lastSeq = fi, seq
		}
	}
	missingFiles := map[int]bool{}
	seenAbsent := false
	for _, ch := range im.chunks {
		pe, ok := presentEnd[[2]int64{int64(ch.file), ch.a}]
		if !ok {
			pe = ch.a
		}
		if pe == ch.b {
			if seenAbsent {
				c.hole = true
			}
			continue
		}
		c.anyMissing = true
		missingFiles[ch.file] = true
		if pe != ch.a {
			c.byteGranular = true // part of a sector
		}
		if !seenAbsent && !h.onRecordBoundary(ch.file, pe) {
			c.insideRecord = true
		}
		seenAbsent = true
	}
	if len(missingFiles) > 1 {
		c.multiSeg = true
	}
	for f := range missingFiles {
		if f != lastWal {
			c.multiSeg = true
		}
	}
	return c
}

func (h *history) onRecordBoundary(file int, off int64) bool {
	fr := h.tr.files[file].frames
	if off == 0 {
		return true
	}
	i := sort.Search(len(fr), func(i int) bool { return fr[i].end >= off })
	return i < len(fr) && fr[i].end == off
}

// ---- reopening an image -------------------------------------------------------------

type outcome struct {
	loud     bool
	errText  string
	repaired bool
	p        int // matched prefix
}

type violation struct {
	Property string      `json:"property"`
	What     string      `json:"what"`
	Image    string      `json:"image"`
	Snapshot string      `json:"opened_at_snapshot"`
	Got      interface{} `json:"got"`
	Want     interface{} `json:"want"`
	Script   *scriptSpec `json:"script"`
	Records  []string    `json:"saved_records"`
}

func (h *history) fail(t *rapid.T, im *image, s walpb.Snapshot, what string, got, want interface{}) {
	v := violation{Property: "C05", What: what, Image: im.describe(h), Snapshot: snapKey(s), Got: got, Want: want, Script: h.sc}
	for i := range h.recs {
		v.Records = append(v.Records, fmt.Sprintf("%d %s", i, h.recs[i].String()))
	}
	b, _ := json.MarshalIndent(&v, "", " ")
	fn := fmt.Sprintf("violation-%s-%x.json", os.Getenv("VERIF_SHARD"), fnv64(h.scHash+im.describe(h)))
	os.WriteFile(fn, b, 0644)
	ops, _ := json.Marshal(h.sc.Ops)
	t.Fatalf("%s\n image: %s\n opened at snapshot %s\n got:  %v\n want: %v\n history: %s", what, im.describe(h), snapKey(s), got, want, ops)
}

func fnv64(s string) uint64 {
	f := fnv.New64a()
	f.Write([]byte(s))
	return f.Sum64()
}

type readOut struct {
	w        *wal.WAL
	meta     []byte
	st       raftpb.HardState
	ents     []raftpb.Entry
	repaired bool
	err      error
	panicked interface{}
}

func safeOpen(dir string, s walpb.Snapshot, opt bool) (r readOut) {
	defer func() {
		if p := recover(); p != nil {
			r.panicked = p
		}
	}()
	r.w, r.meta, r.st, r.ents, r.repaired, r.err = openProduction(dir, s, opt)
	return
}

func resultKey(meta []byte, st raftpb.HardState, ents []raftpb.Entry) string {
	return canonMeta(meta) + "|" + canonState(st) + "|" + strings.Join(canonEnts(ents), ",")
}

func summarize(meta []byte, st raftpb.HardState, ents []raftpb.Entry) string {
	ce := canonEnts(ents)
	if len(ce) > 6 {
		ce = append([]string{fmt.Sprintf("... %d entries ...", len(ce)-6)}, ce[len(ce)-6:]...)
	}
	return fmt.Sprintf("meta=%s state={%s} ents(%d)=%v", canonMeta(meta), canonState(st), len(ents), ce)
}

func (h *history) wantText(s walpb.Snapshot, lo, hi int) string {
	if hi < lo {
		hi = lo
	}
	a := replay(h.recs[:lo], s.Index, s.Term)
	b := replay(h.recs[:hi], s.Index, s.Term)
	f := func(r replayResult) string {
		if !r.ok {
			return "no effect (" + r.why + ")"
		}
		e := r.ents
		if len(e) > 6 {
			e = append([]string{fmt.Sprintf("... %d entries ...", len(e)-6)}, e[len(e)-6:]...)
		}
		return fmt.Sprintf("meta=%s state={%s} ents(%d)=%v", r.meta, r.state, len(r.ents), e)
	}
	return fmt.Sprintf("an error, or replay(records[0:p]) for some %d <= p <= %d; p=%d gives %s; p=%d gives %s", lo, hi, lo, f(a), hi, f(b))
}

type evalCtx struct {
	t       *rapid.T
	h       *history
	dir     string
	counter int
	cfg     tierCfg
}

// checkImage reopens one image and applies the oracle. lo = lower bound of the prefix.
func (c *evalCtx) checkImage(im *image, lo int, rec *stats.Recorder, nontrivial bool, labels []string) {
	c.checkImageV(im, lo, lo, rec, nontrivial, labels)
}

// loV: lower bound for ValidSnapshotEntries. That function reads in read mode and
// tolerates an unexpected EOF anywhere, so when bytes are missing in a segment that is not
// the last it may stop early without an error (the ReadAll that follows then fails loudly);
// its result then only has to be the marker list of some prefix.
func (c *evalCtx) checkImageV(im *image, lo, loV int, rec *stats.Recorder, nontrivial bool, labels []string) {
	h := c.h
	c.counter++
	hi := h.writtenRecords(im.cs)
	files := h.materialize(im)
	writeImage(c.dir, files)

	// 1. what production does first: ValidSnapshotEntries
	var vs []walpb.Snapshot
	var verr error
	func() {
		defer func() {
			if p := recover(); p != nil {
				h.fail(c.t, im, walpb.Snapshot{}, "ValidSnapshotEntries panicked on the image", fmt.Sprint(p), "an error or the snapshot markers of a durable prefix")
			}
		}()
		vs, verr = wal.ValidSnapshotEntries(c.dir)
	}()
	if verr != nil {
		labels = append(labels, "validsnapshots_error")
	} else {
		if _, ok := pick(h.validSnapKeys()[canonSnaps(vs)], loV, hi); !ok {
			h.fail(c.t, im, walpb.Snapshot{}, "ValidSnapshotEntries returned markers that are not those of a durable prefix", canonSnaps(vs),
				fmt.Sprintf("an error, or the markers not above the commit index of records[0:p] for some %d <= p <= %d (%d records had been written at the crash); p=%d gives [%s]; p=%d gives [%s]", loV, hi, hi, loV, validSnaps(h.recs[:loV]), hi, validSnaps(h.recs[:hi])))
		}
	}
	// 2. snapshots to open at: the newest valid one (production), sometimes another
	var starts []walpb.Snapshot
	if verr == nil && len(vs) > 0 {
		best := vs[0]
		for _, s := range vs {
			if s.Index >= best.Index {
				best = s
			}
		}
		starts = append(starts, best)
		if c.counter%c.cfg.altEvery == 0 && len(vs) > 1 {
			alt := vs[(c.counter/c.cfg.altEvery)%len(vs)]
			if alt != best {
				starts = append(starts, alt)
			}
		}
	} else {
		starts = append(starts, walpb.Snapshot{})
	}
	for si, s := range starts {
		if si > 0 {
			writeImage(c.dir, files)
		}
		if c.counter%8 == 1 && si == 0 {
			c.checkVerify(im, s, lo)
		}
		r := safeOpen(c.dir, s, h.opt)
		if r.panicked != nil {
			h.fail(c.t, im, s, "reopening the image panicked", fmt.Sprint(r.panicked), h.wantText(s, lo, hi))
		}
		if r.err != nil {
			labels = append(labels, "outcome_loud_error", "err:"+errClass(r.err))
			for _, l := range labels {
				if l == "granularity:sector" || l == "granularity:byte" {
					labels = append(labels, "loud_error_on_"+strings.TrimPrefix(l, "granularity:")+"_granular_image")
				}
			}
			continue
		}
		key := hashKey(resultKey(r.meta, r.st, r.ents))
		ps := h.replayKeys(s)[key]
		p, ok := pick(ps, lo, hi)
		if !ok {
			r.w.Close()
			what := "reopen returned something that is not the effect of any prefix of the saved records"
			if len(ps) > 0 && p < lo {
				what = fmt.Sprintf("reopen returned the effect of records[0:%d], which lacks records saved before the last completed sync (needs p >= %d)", p, lo)
			} else if len(ps) > 0 {
				what = fmt.Sprintf("reopen returned the effect of records[0:%d], but only %d records had been written when the crash happened", p, hi)
			}
			h.fail(c.t, im, s, what, summarize(r.meta, r.st, r.ents), h.wantText(s, lo, hi))
		}
		if r.repaired {
			labels = append(labels, "outcome_prefix_after_repair")
		} else {
			labels = append(labels, "outcome_prefix")
		}
		if verr != nil && si == 0 {
			// production calls ValidSnapshotEntries first (node/raft.go startRaft) and gives up on its
			// error; an image that Open + ReadAll (+ Repair) read back must not be refused there
			r.w.Close()
			h.fail(c.t, im, s, "ValidSnapshotEntries fails on an image that Open / ReadAll / Repair read back as a durable prefix: the node would not start although the log is intact", verr.Error(), "no error (it is the first call of the restart sequence)")
		}
		if p == hi {
			labels = append(labels, "prefix_is_everything_written")
		}
		// 3. continue on the reopened log, close, reopen: what was kept must be kept
		c.continueAndReopen(im, s, &r, &labels)
	}
	hash := stats.HashString(h.scHash + "|" + im.describe(h))
	rec.Record(hash, nontrivial, labels, func() interface{} {
		return map[string]interface{}{"image": im.describe(h), "records": len(h.recs), "lower_bound": lo, "ops": h.sc.Ops, "labels": labels}
	})
}

func errClass(err error) string {
	s := err.Error()
	for _, k := range []string{"walpb: crc mismatch", "wal: crc mismatch", "unexpected EOF", "snapshot not found", "snapshot mismatch", "file not found", "index out of range", "unexpected block type", "illegal tag", "max entry size", "conflicting metadata", "proto:", "wrong wireType", "unexpected EOF"} {
		if strings.Contains(s, k) {
			return strings.ReplaceAll(k, " ", "_")
		}
	}
	return "other"
}

func (c *evalCtx) checkVerify(im *image, s walpb.Snapshot, lo int) {
	h := c.h
	var err error
	func() {
		defer func() {
			if p := recover(); p != nil {
				h.fail(c.t, im, s, "Verify panicked on the image", fmt.Sprint(p), "nil or an error")
			}
		}()
		err = wal.Verify(c.dir, s)
	}()
	if err != nil {
		return
	}
	// nil means: the marker was found and nothing corrupt was seen -> the marker was saved
	for i := range h.recs {
		if h.recs[i].kind == rkSnap && h.recs[i].index == s.Index && h.recs[i].term == s.Term {
			return
		}
	}
	h.fail(c.t, im, s, "Verify accepted a snapshot marker that was never saved", "nil", "an error")
}

func (c *evalCtx) continueAndReopen(im *image, s walpb.Snapshot, r *readOut, labels *[]string) {
	h := c.h
	w := r.w
	last := s.Index + uint64(len(r.ents))
	lastTerm := s.Term
	if len(r.ents) > 0 {
		lastTerm = r.ents[len(r.ents)-1].Term
	}
	nt := lastTerm
	if r.st.Term > nt {
		nt = r.st.Term
	}
	nt++
	start := last + 1
	if c.counter%3 == 0 && len(r.ents) > 0 && last > r.st.Commit {
		start = last // replace the last (uncommitted) entry
	}
	add := []raftpb.Entry{
		{Term: nt, Index: start, Data: payload(9, 0, byte(c.counter))},
		{Term: nt, Index: start + 1, Data: payload(700, 3, byte(c.counter))},
	}
	nst := raftpb.HardState{Term: nt, Vote: 2, Commit: r.st.Commit}
	var err error
	var pan interface{}
	func() {
		defer func() { pan = recover() }()
		err = w.Save(nst, add)
		if err == nil {
			err = w.Close()
		} else {
			w.Close()
		}
	}()
	if pan != nil {
		h.fail(c.t, im, s, "appending to the reopened log panicked", fmt.Sprint(pan), "Save and Close succeed")
	}
	if err != nil {
		*labels = append(*labels, "continue_save_error")
		return
	}
	r2 := safeOpen(c.dir, s, h.opt)
	if r2.panicked != nil {
		h.fail(c.t, im, s, "second reopen (after appending to the reopened log and closing it) panicked", fmt.Sprint(r2.panicked), "kept records plus the appended ones")
	}
	if r2.err != nil {
		*labels = append(*labels, "continue_reopen_loud_error")
		return
	}
	r2.w.Close()
	want := append(append([]raftpb.Entry{}, r.ents[:start-s.Index-1]...), add...)
	if resultKey(r2.meta, r2.st, r2.ents) != resultKey(r.meta, nst, want) {
		h.fail(c.t, im, s, "after appending to the reopened log and closing it, the next reopen does not return what was kept plus what was appended",
			summarize(r2.meta, r2.st, r2.ents), summarize(r.meta, nst, want))
	}
	*labels = append(*labels, "continue_ok")
}

// ---- the test -------------------------------------------------------------------------

func runHistory(t *rapid.T, ops []opSpec, genLabels map[string]bool) *history {
	base := scratchDir("c05-")
	sc := &scriptSpec{Dir: filepath.Join(base, "w"), Out: filepath.Join(base, "out.json"), Ops: ops}
	h := &history{sc: sc, opt: ops[0].Opt, labels: genLabels, keys: map[string]map[string][]int{}}
	ob, _ := json.Marshal(ops)
	h.scHash = string(ob)
	var tr *traced
	var out *workerOut
	var err error
	var states []crashState
	for attempt := 0; ; attempt++ {
		os.RemoveAll(sc.Dir)
		os.RemoveAll(sc.Dir + ".tmp")
		tr, out, err = runTraced(base, sc)
		if err == nil {
			// the trace must be consistent with the append-only reconstruction
			states, err = statesOf(tr)
		}
		if err == nil || !strings.HasPrefix(err.Error(), "HARNESS:") {
			break
		}
		if attempt == 1 {
			if d := os.Getenv("C05_KEEP_TRACE"); d != "" {
				tb, _ := os.ReadFile(filepath.Join(base, "trace.txt"))
				os.WriteFile(d, tb, 0644)
			}
			os.RemoveAll(base)
			harnessDie("%v", strings.TrimPrefix(err.Error(), "HARNESS: "))
		}
		recCrash.Count("worker_rerun_after_trace_inconsistency", 1)
	}
	defer os.RemoveAll(base)
	if out != nil {
		// boundary-seeking saves: the worker chose the size of their last entry from the offset it saw
		for i, sz := range out.Sized {
			if i >= 0 && i < len(ops) && len(ops[i].Ents) > 0 {
				ops[i].Ents[len(ops[i].Ents)-1].Size = sz
				ops[i].Fill = nil
			}
		}
		ob, _ = json.Marshal(ops)
		h.scHash = string(ob)
	}
	h.recs, h.opEnd = recordsOfOps(ops)
	h.promise = promisesOf(ops, h.opEnd)
	if err != nil {
		t.Fatalf("saving the history failed: %v\n history: %s", err, ob)
	}
	// the worker must have completed every op
	want := []string{"start"}
	for i, o := range ops {
		if o.K == "reopen" {
			want = append(want, fmt.Sprintf("%d.closed", i))
		}
		want = append(want, fmt.Sprintf("%d ok", i))
	}
	if strings.Join(tr.markers, ";") != strings.Join(want, ";") {
		for _, m := range tr.markers {
			if strings.Contains(m, " err ") {
				t.Fatalf("a WAL call of the history failed: marker %q\n history: %s", m, ob)
			}
		}
		if d := os.Getenv("C05_KEEP_TRACE"); d != "" {
			tb, _ := os.ReadFile(filepath.Join(base, "trace.txt"))
			os.WriteFile(d, tb, 0644)
		}
		harnessDie("markers in the trace %v differ from the ops %v", tr.markers, want)
	}
	h.tr = tr
	if err := locate(h.recs, tr.files); err != nil {
		t.Fatalf("the segment files do not hold the saved records in save order: %v\n history: %s", err, ob)
	}
	h.states = states
	// clean close + reopen inside the history: everything is synced, so exactly everything saved so far
	for _, rr := range out.Reads {
		o := ops[rr.Op]
		if rr.Err != "" {
			t.Fatalf("reopen after a clean Close failed inside the history (op %d): %s\n history: %s", rr.Op, rr.Err, ob)
		}
		wr := replay(h.recs[:h.opEnd[rr.Op]], o.Idx, o.Term)
		got := rr.Meta + "|" + rr.State + "|" + strings.Join(rr.Ents, ",")
		if !wr.ok || got != wr.key() {
			t.Fatalf("reopen after a clean Close (op %d, snapshot %d/%d) returned\n  %s\nwant (replay of all %d records saved so far)\n  %s (%s)\n history: %s", rr.Op, o.Idx, o.Term, got, h.opEnd[rr.Op], wr.key(), wr.why, ob)
		}
	}
	// known finding kfCut: in optimizedFsync mode a Save that promises durability (term or
	// vote change) and rolls the segment. While the finding is open, the crash instants of
	// this history are explored only up to the start of that call.
	if h.opt && known.Active(kfCut) {
		if at := h.firstSyncingSaveWithCut(); at >= 0 {
			h.states = h.states[:at]
			recCrash.Count("excluded_by_known_finding", 1)
			h.truncated = true
		}
	}
	for fi, f := range tr.files {
		if strings.HasSuffix(f.finalName, ".wal") {
			h.segs = append(h.segs, fi)
		}
	}
	sort.Slice(h.segs, func(a, b int) bool { return tr.files[h.segs[a]].finalName < tr.files[h.segs[b]].finalName })
	return h
}

func stateSig(cs *crashState) string {
	var b strings.Builder
	for _, f := range cs.files {
		fmt.Fprintf(&b, "%s,%s,%d,%d,%d;", f.name, f.oldName, f.size, f.written, f.synced)
	}
	return b.String()
}

func TestWALCrashImages(t *testing.T) {
	cfg := cfgOfTier()
	rapid.Check(t, func(t *rapid.T) {
		ops, gl := genHistory(t, cfg.gen)
		// positions of the fully enumerated writes and of the bit flips: one drawn seed each,
		// expanded by a fixed LCG (keeps the rapid draw log of a failing case readable)
		lcg := rapid.Uint64().Draw(t, "positionSeed")
		next := func(n int) int {
			lcg = lcg*6364136223846793005 + 1442695040888963407
			return int((lcg >> 33) % uint64(n))
		}
		extraSel := make([]int, cfg.fullExtra)
		for i := range extraSel {
			extraSel[i] = next(1 << 20)
		}
		flipDraws := make([][3]int, cfg.flips)
		for i := range flipDraws {
			flipDraws[i] = [3]int{next(1 << 20), next(14), next(1 << 16)}
		}
		h := runHistory(t, ops, gl)
		wal.SegmentSizeBytes = ops[0].Seg // package-level state of the code under test, set per case
		imgDir := scratchDir("c05img-")
		defer os.RemoveAll(imgDir)
		ctx := &evalCtx{t: t, h: h, dir: filepath.Join(imgDir, "w"), cfg: cfg}
		var hl []string
		for l := range gl {
			hl = append(hl, "history:"+l)
		}
		if len(h.segs) > 1 {
			hl = append(hl, fmt.Sprintf("history:segments_%d", len(h.segs)))
		}
		sort.Strings(hl)
		recCrash.Count("histories", 1)
		for _, l := range hl {
			recCrash.Count(l, 1)
		}
		crashImages(ctx, extraSel)
		flipImages(ctx, flipDraws)
	})
}

// crashImages enumerates the crash images of a history.
func crashImages(c *evalCtx, extraSel []int) {
	h := c.h
	// write instants
	var writeInst []int
	for i, e := range h.tr.events {
		if e.kind == evWrite {
			writeInst = append(writeInst, i)
		}
	}
	full := map[int]bool{}
	if len(writeInst) > 0 {
		full[writeInst[len(writeInst)-1]] = true
		for _, x := range extraSel {
			full[writeInst[x%len(writeInst)]] = true
		}
	}
	budget := c.cfg.imageBudget
	// bigger files make every image more expensive
	var total int64
	for _, f := range h.tr.files {
		total += int64(len(f.final))
	}
	if total > 512*1024 {
		budget = budget * 512 * 1024 / int(total)
		if budget < 150 {
			budget = 150
		}
	}
	lastSig := ""
	used := 0
	for i := range h.states {
		cs := &h.states[i]
		e := h.tr.events[i]
		switch e.kind {
		case evCreate, evFalloc, evUnlink:
			continue
		}
		// before Create has returned there is no log to reopen
		if cs.markers < 2 {
			continue
		}
		obs, contract := h.lowerBound(cs)
		lo := obs
		if contract > lo {
			lo = contract
		}
		sig := fmt.Sprintf("%s|%d", stateSig(cs), lo)
		if sig == lastSig {
			continue
		}
		lastSig = sig
		chunks := h.unsyncedChunks(cs)
		var unsynced int64
		for _, ch := range chunks {
			unsynced += ch.b - ch.a
		}
		renamePending := false
		for _, f := range cs.files {
			if f.oldName != "" {
				renamePending = true
			}
		}
		emit := func(im *image) {
			im.cs, im.chunks, im.flipOff = cs, chunks, -1
			cl := h.classify(im)
			labels := []string{"kind:" + im.kind}
			if cl.byteGranular {
				labels = append(labels, "granularity:byte")
			} else {
				labels = append(labels, "granularity:sector")
			}
			if cl.insideRecord {
				labels = append(labels, "cut_inside_record")
			}
			if cl.multiSeg {
				labels = append(labels, "missing_bytes_in_earlier_or_several_segments")
			}
			if cl.hole {
				labels = append(labels, "sector_hole")
			}
			if im.trunc {
				labels = append(labels, "file_truncated_at_cut")
			}
			if im.oldName {
				labels = append(labels, "rename_not_durable")
			}
			if contract > obs {
				labels = append(labels, "bound_from_api_promise")
			}
			if e.kind != evMarker {
				labels = append(labels, "instant:inside_api_call")
			} else {
				labels = append(labels, "instant:between_api_calls")
			}
			nt := cl.insideRecord || cl.multiSeg || cl.hole
			loV := lo
			if cl.multiSeg {
				loV = 0
			}
			c.checkImageV(im, lo, loV, recCrash, nt, labels)
			used++
		}
		// base images
		emit(&image{cut: 0, kind: "nothing_unsynced_present"})
		if unsynced > 0 {
			emit(&image{cut: unsynced, kind: "everything_written_present"})
		}
		if renamePending {
			emit(&image{cut: unsynced, oldName: true, kind: "everything_written_present"})
			if unsynced > 0 {
				emit(&image{cut: 0, oldName: true, kind: "nothing_unsynced_present"})
			}
		}
		if unsynced == 0 || e.kind != evWrite {
			continue
		}
		// cut positions (in unsynced bytes, write order)
		cuts := map[int64]string{}
		var pos int64
		bounds := []int64{}
		for _, ch := range chunks {
			// sector starts and record boundaries inside the chunk
			if ch.a%sector == 0 && pos > 0 {
				cuts[pos] = "sector_cut"
			}
			for _, fr := range h.tr.files[ch.file].frames {
				for _, b := range []int64{fr.start, fr.start + 8, fr.end} {
					if b > ch.a && b <= ch.b {
						bounds = append(bounds, pos+(b-ch.a))
					}
				}
			}
			pos += ch.b - ch.a
		}
		for _, b := range bounds {
			for _, d := range []int64{-1, 0, 1} {
				if x := b + d; x > 0 && x < unsynced {
					if _, ok := cuts[x]; !ok {
						cuts[x] = "record_edge_cut"
					}
				}
			}
		}
		isFull := full[i] && used < budget
		windowed := false
		if isFull {
			lim := int64(c.cfg.fullCap)
			if unsynced <= lim {
				for x := int64(1); x < unsynced; x++ {
					if _, ok := cuts[x]; !ok {
						cuts[x] = "byte_cut"
					}
				}
			} else {
				windowed = true
				// outside the two windows keep at most 64 of the sector and record-edge cuts
				var mid []int64
				for x := range cuts {
					if x >= lim/2 && x < unsynced-lim/2 {
						mid = append(mid, x)
					}
				}
				sort.Slice(mid, func(a, b int) bool { return mid[a] < mid[b] })
				if len(mid) > 64 {
					keep := map[int64]bool{}
					for k := 0; k < 64; k++ {
						keep[mid[k*len(mid)/64]] = true
					}
					for _, x := range mid {
						if !keep[x] {
							delete(cuts, x)
						}
					}
				}
				for x := int64(1); x < lim/2; x++ {
					if _, ok := cuts[x]; !ok {
						cuts[x] = "byte_cut"
					}
				}
				for x := unsynced - lim/2; x < unsynced; x++ {
					if _, ok := cuts[x]; !ok {
						cuts[x] = "byte_cut"
					}
				}
				// a stride through the middle, not sector aligned
				step := (unsynced - lim) / 64
				if step < 1 {
					step = 1
				}
				for x := lim / 2; x < unsynced-lim/2; x += step | 1 {
					if _, ok := cuts[x]; !ok {
						cuts[x] = "byte_cut"
					}
				}
			}
		}
		var order []int64
		for x := range cuts {
			order = append(order, x)
		}
		sort.Slice(order, func(a, b int) bool { return order[a] < order[b] })
		if !isFull {
			// bound the light enumeration: at most 48 cuts per write (12 when the history is over budget)
			lim := 48
			if used >= budget {
				lim = 12
			}
			if len(order) > lim {
				var thin []int64
				for k := 0; k < lim; k++ {
					thin = append(thin, order[k*len(order)/lim])
				}
				order = thin
			}
		}
		for k, x := range order {
			kind := cuts[x]
			if isFull {
				if windowed {
					kind += "_tail_windowed"
				} else {
					kind += "_tail_complete"
				}
			}
			emit(&image{cut: x, kind: kind})
			// the same cut with the file ending there instead of zeros up to its size; only
			// for the last segment (an earlier segment got its size from ftruncate in cut())
			if (k%4 == 1 || cuts[x] == "record_edge_cut" && isFull) && cutInLastSegment(cs, chunks, x) {
				emit(&image{cut: x, trunc: true, kind: kind})
			}
		}
		// sector presence patterns over a window of up to 6 unsynced sectors. A sector is
		// present or absent as a whole (all unsynced bytes written into it), because a later
		// version of a sector contains the bytes of the earlier one.
		if isFull || len(chunks) <= 3 {
			type skey struct {
				file int
				sec  int64
			}
			var groups []skey
			gidx := map[skey]int{}
			for _, ch := range chunks {
				k := skey{ch.file, ch.a / sector}
				if _, ok := gidx[k]; !ok {
					gidx[k] = len(groups)
					groups = append(groups, k)
				}
			}
			windows := [][2]int{}
			n := len(groups)
			w := 6
			if !isFull {
				w = 3
			}
			if n <= w {
				windows = append(windows, [2]int{0, n})
			} else {
				windows = append(windows, [2]int{0, w}, [2]int{n - w, n})
			}
			for wi, win := range windows {
				k := win[1] - win[0]
				for m := 1; m < (1<<k)-1; m++ {
					gm := make([]bool, n)
					for j := 0; j < win[0]; j++ {
						gm[j] = true // everything before the window is present
					}
					prefix := true
					sawZero := false
					for j := 0; j < k; j++ {
						gm[win[0]+j] = m&(1<<j) != 0
						if gm[win[0]+j] && sawZero {
							prefix = false
						}
						if !gm[win[0]+j] {
							sawZero = true
						}
					}
					if prefix && wi == 0 {
						continue // pure prefixes on sector boundaries are covered by the cuts
					}
					mask := make([]bool, len(chunks))
					for ci, ch := range chunks {
						mask[ci] = gm[gidx[skey{ch.file, ch.a / sector}]]
					}
					emit(&image{cut: -1, mask: mask, kind: "sector_pattern"})
				}
			}
		}
	}
}

func cutInLastSegment(cs *crashState, chunks []chunk, cut int64) bool {
	file := -1
	left := cut
	for _, c := range chunks {
		n := c.b - c.a
		if left <= n {
			file = c.file
			break
		}
		left -= n
	}
	if file < 0 {
		return false
	}
	var mySeq, maxSeq uint64
	for fi, fs := range cs.files {
		var seq, idx uint64
		if n, _ := fmt.Sscanf(fs.name, "%016x-%016x.wal", &seq, &idx); n == 2 && strings.HasSuffix(fs.name, ".wal") {
			if seq > maxSeq {
				maxSeq = seq
			}
			if fi == file {
				mySeq = seq
			}
		} else if fi == file {
			return false
		}
	}
	return mySeq == maxSeq
}

// flipImages: single bit flips in the synced region.
func flipImages(c *evalCtx, draws [][3]int) {
	h := c.h
	if len(h.states) == 0 {
		return
	}
	cs := &h.states[len(h.states)-1]
	// frames that lie completely in the synced region, over all segments
	type fref struct {
		file int
		fr   *frame
	}
	var frs []fref
	lastSyncedRec := -1
	for _, fi := range h.segs {
		f := h.tr.files[fi]
		for k := range f.frames {
			if f.frames[k].end <= cs.files[fi].synced {
				frs = append(frs, fref{fi, &f.frames[k]})
				if f.frames[k].rec > lastSyncedRec {
					lastSyncedRec = f.frames[k].rec
				}
			}
		}
	}
	if len(frs) == 0 {
		return
	}
	chunks := h.unsyncedChunks(cs)
	var unsynced int64
	for _, ch := range chunks {
		unsynced += ch.b - ch.a
	}
	excludeType := known.Active(kfType)
	seen := map[string]bool{}
	for _, d := range draws {
		// bias towards the last records and the heads of segments
		var ref fref
		switch d[0] % 4 {
		case 0:
			ref = frs[len(frs)-1-(d[0]/4)%min(len(frs), 3)]
		default:
			ref = frs[(d[0]/4)%len(frs)]
		}
		fr := ref.fr
		var lo, hi int64
		class := ""
		switch d[1] {
		case 0, 1:
			lo, hi, class = fr.start, fr.start+8, "length_field"
		case 2, 3:
			lo, hi, class = fr.typOff-1, fr.typEnd, "record_type" // field tag and value
		case 4, 5:
			lo, hi, class = fr.crcOff, fr.crcEnd, "crc"
		case 6:
			lo, hi, class = fr.dlenOff, fr.dlenEnd, "data_length"
		case 7, 8, 9, 10:
			lo, hi, class = fr.dataOff, fr.dataEnd, "data"
		case 11:
			lo, hi, class = fr.end-fr.pad, fr.end, "padding"
		case 12:
			lo, hi, class = fr.start+8, fr.start+8+fr.recLen, "envelope_any"
		case 13:
			// the zero word that follows the last record of the last segment
			lf := h.segs[len(h.segs)-1]
			fs := cs.files[lf]
			if fs.written+8 <= fs.size && fs.synced == fs.written {
				lo, hi, class = fs.written, fs.written+8, "zero_word_after_last_record"
				ref.file = lf
			}
		}
		if class == "" || lo < 0 || hi <= lo {
			continue
		}
		off := lo + int64(d[2]>>3)%(hi-lo)
		bit := uint(d[2] & 7)
		// known finding: the type field (tag byte and value) of the envelope is outside the checksum
		typeByte := fr.typOff > 0 && off >= fr.typOff-1 && off < fr.typEnd && class != "zero_word_after_last_record"
		if typeByte && excludeType {
			recFlip.Count("excluded_by_known_finding", 1)
			continue
		}
		key := fmt.Sprintf("%d/%d/%d", ref.file, off, bit)
		if seen[key] {
			continue
		}
		seen[key] = true
		im := &image{cs: cs, chunks: chunks, cut: unsynced, flipFile: ref.file, flipOff: off, flipBit: bit, kind: "bit_flip"}
		nt := fr.rec >= 0 && fr.rec < lastSyncedRec && class != "zero_word_after_last_record"
		labels := []string{"class:" + class}
		if ref.file != h.segs[len(h.segs)-1] {
			labels = append(labels, "flip_in_earlier_segment")
		}
		c.checkImage(im, 0, recFlip, nt, labels)
	}
}

func min(a, b int) int {
	if a < b {
		return a
	}
	return b
}

// ---- known findings: regression probes with the minimal inputs --------------------------

// The checksum of a record covers only its data, not its type. One flipped bit in the
// type byte of a synced record turns a hard state into an entry (or the reverse) with a
// valid checksum: ReadAll returns a fabricated record instead of an error.
func TestKnownRecordTypeNotChecksummed(t *testing.T) {
	known.Probe(t, kfType, func() (bool, string) {
		base := scratchDir("c05known-")
		defer os.RemoveAll(base)
		dir := filepath.Join(base, "w")
		wal.SegmentSizeBytes = 4096
		ops := []opSpec{
			{K: "create", Meta: []byte("m"), Seg: 4096},
			{K: "save", St: &hsSpec{Term: 1, Vote: 1, Commit: 0}, Ents: []entSpec{{Index: 1, Term: 1, Size: 1}, {Index: 2, Term: 1, Size: 1}, {Index: 3, Term: 1, Size: 1}}},
			{K: "save", St: &hsSpec{Term: 1, Vote: 1, Commit: 2}},
		}
		w, err := wal.Create(dir, ops[0].Meta, false)
		if err != nil {
			harnessDie("probe create: %v", err)
		}
		for _, o := range ops[1:] {
			var ents []raftpb.Entry
			for _, e := range o.Ents {
				ents = append(ents, e.entry())
			}
			if err := w.Save(o.St.hardState(), ents); err != nil {
				harnessDie("probe save: %v", err)
			}
		}
		w.Close()
		recs, _ := recordsOfOps(ops)
		name := "0000000000000000-0000000000000000.wal"
		orig, _ := os.ReadFile(filepath.Join(dir, name))
		frames := walkFrames(orig)
		// the last frame is the hard state {term 1, vote 1, commit 2}: type 3 -> 2 makes it entry index 2
		last := frames[len(frames)-1]
		if last.typ != ftState {
			harnessDie("probe: last frame is not a state record")
		}
		mut := append([]byte{}, orig...)
		mut[last.typOff] ^= 1
		img := filepath.Join(base, "img")
		writeImage(img, map[string][]byte{name: mut})
		r := safeOpen(img, walpb.Snapshot{}, false)
		if r.panicked != nil {
			return true, fmt.Sprintf("bit 0 of the type byte (offset %d) of the last hard state record flipped: reopen panics: %v", last.typOff, r.panicked)
		}
		if r.err != nil {
			return false, ""
		}
		r.w.Close()
		got := resultKey(r.meta, r.st, r.ents)
		for p := 0; p <= len(recs); p++ {
			if x := replay(recs[:p], 0, 0); x.ok && x.key() == got {
				return false, ""
			}
		}
		return true, fmt.Sprintf("saved entries 1..3 (term 1) and hard states {1,1,0},{1,1,2}; bit 0 of the type byte (file offset %d) of the last hard state record flipped; reopen returns without error %s", last.typOff, summarize(r.meta, r.st, r.ents))
	})
}

// optimizedFsync: Save computes that it has to fsync (term or vote changed) but, when the
// same call rolls the segment, returns through cut(), which only flushes in this mode.
func TestKnownOptimizedFsyncCutSkipsSync(t *testing.T) {
	known.Probe(t, kfCut, func() (bool, string) {
		base := scratchDir("c05known-")
		defer os.RemoveAll(base)
		sc := &scriptSpec{Dir: filepath.Join(base, "w"), Out: filepath.Join(base, "out.json"), Ops: []opSpec{
			{K: "create", Meta: []byte("m"), Seg: 4096, Opt: true},
			{K: "save", St: &hsSpec{Term: 1, Vote: 1, Commit: 0}, Ents: []entSpec{{Index: 1, Term: 1, Size: 4200}}},
			{K: "save", St: &hsSpec{Term: 2, Vote: 2, Commit: 0}},
		}}
		tr, _, err := runTraced(base, sc)
		if err != nil {
			harnessDie("probe worker: %v", err)
		}
		recs, opEnd := recordsOfOps(sc.Ops)
		if err := locate(recs, tr.files); err != nil {
			harnessDie("probe locate: %v", err)
		}
		states, err := statesOf(tr)
		if err != nil {
			harnessDie("probe states: %v", err)
		}
		h := &history{sc: sc, opt: true, recs: recs, opEnd: opEnd, tr: tr, states: states, promise: promisesOf(sc.Ops, opEnd)}
		cs := &states[len(states)-1]
		obs, contract := h.lowerBound(cs)
		if obs >= contract {
			return false, ""
		}
		// the concrete crash image: nothing that no fdatasync covers is present
		img := filepath.Join(base, "img")
		im := &image{cs: cs, chunks: h.unsyncedChunks(cs), cut: 0, flipOff: -1, kind: "nothing_unsynced_present"}
		writeImage(img, h.materialize(im))
		wal.SegmentSizeBytes = 4096
		r := safeOpen(img, walpb.Snapshot{}, true)
		res := "fails: " + fmt.Sprint(r.err)
		if r.err == nil && r.panicked == nil {
			res = "returns without error " + summarize(r.meta, r.st, r.ents)
			r.w.Close()
		}
		return true, fmt.Sprintf("Create(optimizedFsync, 4 KiB segments); Save(HardState{Term:1,Vote:1}, one 4200-byte entry) [fdatasync seen, segment now full]; Save(HardState{Term:2,Vote:2}) rolls the segment and returns with %d fdatasync calls on WAL files in the whole trace; the call promises %d durable records, completed syncs cover %d; reopening the image without the unsynced bytes %s",
			countSyncs(tr), contract, obs, res)
	})
}

func countSyncs(tr *traced) int {
	n := 0
	for _, e := range tr.events {
		if e.kind == evSyncEnd {
			n++
		}
	}
	return n
}
