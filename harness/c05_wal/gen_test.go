package c05

// Generator of save histories. Histories have the shape the raft driver in
// node/raft.go produces (persistRaftState / snapshot / Release / restart): terms never
// decrease, a vote changes only with the term or from "none", commit never decreases and
// never passes the last saved index, entries are contiguous, overwrite only an
// uncommitted suffix and only with a higher term, a HardState is passed only when it
// differs from the previous one, a local snapshot marker points at a committed index, an
// incoming snapshot marker is followed by the Save that commits it.

import (
	"fmt"

	"pgregory.net/rapid"
)

type genCfg struct {
	maxOps   int
	bigProb  int // per mille of histories that contain one entry around the 1 MiB encoder buffer
	maxBytes int // stop adding ops when the estimated log size passes this many segments
}

type genState struct {
	term, vote, commit uint64
	passed             hsSpec // the HardState last handed to Save
	last               uint64 // last index of the log
	first              uint64 // first index of the log (after an incoming snapshot: snapshot index + 1)
	termOf             map[uint64]uint64
	snaps              []opSpec // markers saved so far (K=="snap"), incl. the zero marker
	bytes              int
	labels             map[string]bool
	idc                uint64
}

var payloadSizes = []int{0, 1, 7, 8, 9, 9, 30, 100, -500, -500, -500, -4096}

func drawEntry(t *rapid.T, g *genState, index, term uint64, big bool) entSpec {
	e := entSpec{Index: index, Term: term}
	c := rapid.SampledFrom(payloadSizes).Draw(t, "size")
	switch {
	case big:
		e.Size = 1024*1024 + rapid.SampledFrom([]int{-80, -48, -40, -32, -24, -16, -8, -1, 0, 1, 8, 64, 4096}).Draw(t, "bigoff") + rapid.IntRange(-4, 4).Draw(t, "bigoff2")
	case c == -500:
		e.Size = rapid.IntRange(500, 520).Draw(t, "s500")
	case c == -4096:
		e.Size = 4096 + rapid.IntRange(-8, 8).Draw(t, "s4k")
	default:
		e.Size = c
	}
	e.Kind = rapid.SampledFrom([]int{0, 0, 0, 1, 2, 3, 4}).Draw(t, "pkind")
	e.Seed = rapid.Byte().Draw(t, "pseed")
	if rapid.IntRange(0, 9).Draw(t, "conf") == 0 {
		e.Type = 1
	}
	if rapid.Bool().Draw(t, "hasid") {
		g.idc += uint64(rapid.IntRange(1, 1000).Draw(t, "id"))
		e.ID = g.idc
		e.DataType = int32(rapid.IntRange(0, 3).Draw(t, "dt"))
		e.Timestamp = int64(1600000000000000000) + int64(rapid.IntRange(0, 1<<30).Draw(t, "ts"))
	}
	return e
}

func (g *genState) stateIfChanged() *hsSpec {
	cur := hsSpec{Term: g.term, Vote: g.vote, Commit: g.commit}
	if cur == g.passed {
		return nil
	}
	g.passed = cur
	return &cur
}

func estSize(o *opSpec) int {
	n := 0
	for _, e := range o.Ents {
		n += e.Size + 56
	}
	if o.St != nil {
		n += 24
	}
	if o.K == "snap" {
		n += 24
	}
	return n
}

func genHistory(t *rapid.T, cfg genCfg) ([]opSpec, map[string]bool) {
	g := &genState{termOf: map[uint64]uint64{}, labels: map[string]bool{}, first: 1}
	opt := rapid.Bool().Draw(t, "optimizedFsync")
	seg := rapid.SampledFrom([]int64{4096, 4096, 4096, 16384, 16384, 65536}).Draw(t, "segment")
	var meta []byte
	switch rapid.IntRange(0, 5).Draw(t, "metakind") {
	case 0:
		meta = nil
	case 1:
		meta = []byte("m")
	case 2:
		meta = payload(600, 0, 7) // crosses a sector
	default:
		meta = []byte(fmt.Sprintf(`{"ID":%d,"GroupName":"ns-%d","GroupID":%d}`, rapid.IntRange(1, 9).Draw(t, "mid"), rapid.IntRange(0, 31).Draw(t, "mgrp"), rapid.IntRange(1, 5000).Draw(t, "mgid")))
	}
	if opt {
		g.labels["optimized_fsync"] = true
	}
	g.labels[fmt.Sprintf("segment_%dk", seg/1024)] = true
	ops := []opSpec{{K: "create", Meta: meta, Opt: opt, Seg: seg}}
	g.snaps = append(g.snaps, opSpec{K: "snap"})
	bigAt := -1
	nops := rapid.IntRange(1, cfg.maxOps).Draw(t, "nops")
	// (rapid prefers small values: the rare branch sits in the middle of the range)
	if b := rapid.IntRange(0, 999).Draw(t, "bigHistory"); b >= 500 && b < 500+cfg.bigProb {
		bigAt = rapid.IntRange(0, nops-1).Draw(t, "bigAt")
		g.labels["entry_around_1MiB"] = true
	}
	limit := int(seg) * cfg.maxBytes
	for i := 0; i < nops && g.bytes < limit; i++ {
		kind := rapid.SampledFrom([]string{"save", "save", "save", "save", "save", "save", "commit", "commit", "vote", "snap", "snap", "insnap", "sync", "reopen", "empty", "snapthenstate", "cutthenmarker"}).Draw(t, "op")
		if g.term == 0 || i == bigAt {
			kind = "save"
		}
		switch kind {
		case "empty":
			ops = append(ops, opSpec{K: "save"})
		case "commit":
			// only the commit index advances (no sync required by MustSync)
			if g.commit >= g.last {
				continue
			}
			g.commit += uint64(rapid.IntRange(1, int(g.last-g.commit)).Draw(t, "adv"))
			o := opSpec{K: "save", St: g.stateIfChanged()}
			ops = append(ops, o)
			g.labels["commit_only_save"] = true
		case "vote":
			// higher term seen, then (maybe) a vote in that term without a term change
			if rapid.Bool().Draw(t, "termFirst") || g.vote != 0 {
				g.term += uint64(rapid.IntRange(1, 2).Draw(t, "dterm"))
				g.vote = uint64(rapid.SampledFrom([]int{0, 0, 1, 2, 3}).Draw(t, "vote"))
			} else {
				g.vote = uint64(rapid.IntRange(1, 3).Draw(t, "vote"))
				g.labels["vote_only_change"] = true
			}
			ops = append(ops, opSpec{K: "save", St: g.stateIfChanged()})
		case "save":
			o := opSpec{K: "save"}
			if g.term == 0 || rapid.IntRange(0, 6).Draw(t, "bump") == 0 {
				g.term += uint64(rapid.IntRange(1, 2).Draw(t, "dterm"))
				g.vote = uint64(rapid.SampledFrom([]int{0, 1, 2, 3}).Draw(t, "vote"))
			}
			n := rapid.SampledFrom([]int{0, 1, 1, 1, 2, 2, 3, 5}).Draw(t, "nents")
			if i == bigAt && n == 0 {
				n = 1
			}
			start := g.last + 1
			if n > 0 && g.last > g.commit && g.last >= g.first && rapid.IntRange(0, 4).Draw(t, "overwrite") == 0 {
				lo := g.commit + 1
				if lo < g.first {
					lo = g.first
				}
				if lo <= g.last {
					start = lo + uint64(rapid.IntRange(0, int(g.last-lo)).Draw(t, "owAt"))
					// a conflicting suffix comes from a leader of a higher term
					if g.term <= g.termOf[g.last] {
						g.term = g.termOf[g.last] + 1
						g.vote = 0
					}
					g.labels["overwrite_suffix"] = true
				}
			}
			et := g.term
			if start > g.last && start > g.first {
				// catching up may bring entries of older terms
				prev := g.termOf[start-1]
				if prev < g.term && rapid.IntRange(0, 3).Draw(t, "oldTerm") == 0 {
					et = prev + uint64(rapid.IntRange(0, int(g.term-prev)).Draw(t, "eterm"))
					if et == 0 {
						et = 1
					}
				}
			}
			for k := 0; k < n; k++ {
				idx := start + uint64(k)
				if k > 0 && et < g.term && rapid.IntRange(0, 2).Draw(t, "termStep") == 0 {
					et++
				}
				o.Ents = append(o.Ents, drawEntry(t, g, idx, et, i == bigAt && k == 0))
				g.termOf[idx] = et
			}
			if n > 0 {
				for x := start + uint64(n); x <= g.last; x++ {
					delete(g.termOf, x)
				}
				g.last = start + uint64(n) - 1
			}
			if g.commit < g.last && rapid.IntRange(0, 2).Draw(t, "advCommit") > 0 {
				g.commit += uint64(rapid.IntRange(1, int(g.last-g.commit)).Draw(t, "adv"))
			}
			o.St = g.stateIfChanged()
			if o.St == nil && n > 0 {
				g.labels["entries_without_state"] = true
			}
			if n > 0 && i != bigAt && rapid.IntRange(0, 5).Draw(t, "fill") == 0 {
				// end this Save close to the segment boundary (either side): what the next call
				// does there - a marker, a state-only Save, a cut - is where file naming and sync
				// decisions are taken
				f := rapid.IntRange(-48, 120).Draw(t, "fillTo")
				o.Fill = &f
				g.labels["save_sized_to_end_near_segment_boundary"] = true
			}
			ops = append(ops, o)
		case "cutthenmarker":
			// a Save that rolls the segment, then Saves that carry entries only, then a snapshot marker
			// (it lands in the new segment) and a reopen at it: what the new segment's header carries
			// (crc, metadata, hard state) is all a reader that starts there knows
			if g.term == 0 {
				continue
			}
			o := opSpec{K: "save"}
			o.Ents = append(o.Ents, drawEntry(t, g, g.last+1, g.term, false))
			g.last++
			g.termOf[g.last] = g.term
			if g.commit < g.last {
				g.commit += uint64(rapid.IntRange(1, int(g.last-g.commit)).Draw(t, "adv"))
			}
			o.St = g.stateIfChanged()
			f := -rapid.IntRange(8, 64).Draw(t, "overshoot")
			o.Fill = &f
			ops = append(ops, o)
			g.bytes += estSize(&o)
			for k := rapid.IntRange(1, 2).Draw(t, "plain"); k > 0; k-- {
				p := opSpec{K: "save"}
				p.Ents = append(p.Ents, drawEntry(t, g, g.last+1, g.term, false))
				g.last++
				g.termOf[g.last] = g.term
				ops = append(ops, p)
				g.bytes += estSize(&p)
			}
			lastSnap := g.snaps[len(g.snaps)-1].Idx
			if g.commit > lastSnap && g.commit >= g.first {
				lo := lastSnap + 1
				if lo < g.first {
					lo = g.first
				}
				idx := lo + uint64(rapid.IntRange(0, int(g.commit-lo)).Draw(t, "snapAt"))
				sn := opSpec{K: "snap", Idx: idx, Term: g.termOf[idx]}
				ops = append(ops, sn, opSpec{K: "reopen", Idx: idx, Term: g.termOf[idx]})
				g.snaps = append(g.snaps, sn)
				g.labels["local_snapshot"] = true
				g.labels["cut_then_entries_then_marker_then_reopen"] = true
			}
		case "snapthenstate":
			// a local snapshot marker (usually behind the last entry) followed at once by a Save that
			// carries only a hard state: if the tail has outgrown the segment, that Save rolls it, and
			// the new segment's name is derived from what the marker left behind
			lastSnap := g.snaps[len(g.snaps)-1].Idx
			if g.commit <= lastSnap || g.commit < g.first {
				continue
			}
			lo := lastSnap + 1
			if lo < g.first {
				lo = g.first
			}
			idx := lo + uint64(rapid.IntRange(0, int(g.commit-lo)).Draw(t, "snapAt"))
			o := opSpec{K: "snap", Idx: idx, Term: g.termOf[idx]}
			ops = append(ops, o)
			g.snaps = append(g.snaps, o)
			g.labels["local_snapshot"] = true
			if g.commit < g.last && rapid.Bool().Draw(t, "advc") {
				g.commit += uint64(rapid.IntRange(1, int(g.last-g.commit)).Draw(t, "adv"))
			} else {
				g.term += 1
				g.vote = uint64(rapid.SampledFrom([]int{0, 1, 2, 3}).Draw(t, "vote"))
			}
			ops = append(ops, opSpec{K: "save", St: g.stateIfChanged()})
			g.labels["marker_then_state_only_save"] = true
		case "snap":
			lastSnap := g.snaps[len(g.snaps)-1].Idx
			if g.commit <= lastSnap || g.commit < g.first {
				continue
			}
			lo := lastSnap + 1
			if lo < g.first {
				lo = g.first
			}
			idx := lo + uint64(rapid.IntRange(0, int(g.commit-lo)).Draw(t, "snapAt"))
			o := opSpec{K: "snap", Idx: idx, Term: g.termOf[idx]}
			ops = append(ops, o)
			g.snaps = append(g.snaps, o)
			g.labels["local_snapshot"] = true
			if rapid.IntRange(0, 4).Draw(t, "snapSync") > 0 {
				ops = append(ops, opSpec{K: "sync"})
				if rapid.IntRange(0, 3).Draw(t, "snapRelease") > 0 {
					ops = append(ops, opSpec{K: "release", Idx: idx})
					g.labels["release_lock"] = true
				}
			}
		case "insnap":
			// snapshot from the leader: beyond the local log; the log restarts after it
			idx := g.last + uint64(rapid.IntRange(1, 20).Draw(t, "ahead"))
			st := g.termOf[g.last]
			if g.last < g.first {
				st = g.snaps[len(g.snaps)-1].Term
			}
			if st < g.term {
				st += uint64(rapid.IntRange(0, int(g.term-st)).Draw(t, "snapTerm"))
			}
			if st == 0 {
				st = g.term
			}
			o := opSpec{K: "snap", Idx: idx, Term: st}
			ops = append(ops, o)
			g.snaps = append(g.snaps, o)
			g.termOf = map[uint64]uint64{idx: st}
			g.first, g.last, g.commit = idx+1, idx, idx
			s := opSpec{K: "save", St: g.stateIfChanged()}
			n := rapid.IntRange(0, 2).Draw(t, "nentsAfterSnap")
			for k := 0; k < n; k++ {
				e := drawEntry(t, g, g.last+1, g.term, false)
				s.Ents = append(s.Ents, e)
				g.last++
				g.termOf[g.last] = g.term
			}
			ops = append(ops, s)
			g.bytes += estSize(&s)
			g.labels["incoming_snapshot"] = true
			if rapid.IntRange(0, 3).Draw(t, "insnapSync") > 0 {
				ops = append(ops, opSpec{K: "sync"}, opSpec{K: "release", Idx: idx})
			}
		case "sync":
			ops = append(ops, opSpec{K: "sync"})
		case "reopen":
			// production restarts at the newest snapshot marker that is not above the commit index
			var pick *opSpec
			for k := len(g.snaps) - 1; k >= 0; k-- {
				if g.snaps[k].Idx <= g.passedCommit() {
					pick = &g.snaps[k]
					break
				}
			}
			if pick == nil {
				continue
			}
			if pick.Idx != 0 && !g.labels["incoming_snapshot"] && rapid.IntRange(0, 3).Draw(t, "reopenAtZero") == 0 {
				pick = &g.snaps[0]
			}
			ops = append(ops, opSpec{K: "reopen", Idx: pick.Idx, Term: pick.Term})
			g.labels["close_reopen_continue"] = true
		}
		g.bytes += estSize(&ops[len(ops)-1])
	}
	if rapid.IntRange(0, 7).Draw(t, "finalClose") == 0 {
		ops = append(ops, opSpec{K: "close"})
	}
	return ops, g.labels
}

// the commit index of the HardState last handed to Save (what a reader will find)
func (g *genState) passedCommit() uint64 { return g.passed.Commit }
