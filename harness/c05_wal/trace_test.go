package c05

// Engine E ("crashfs") for the WAL: run the worker under strace, parse the system-call
// trace, and reconstruct for every instant which bytes had been written to which file
// and which of them a completed fdatasync/fsync covers. File contents are not taken
// from strace: the WAL only appends, so the bytes of a write are final_file[off:off+len]
// (the parser verifies the append-only assumption and refuses the trace otherwise).

import (
	"bufio"
	"bytes"
	"context"
	"encoding/json"
	"fmt"
	"os"
	"os/exec"
	"path/filepath"
	"regexp"
	"strconv"
	"strings"
	"time"
)

const traceSet = "openat,open,creat,read,pread64,write,pwrite64,writev,fdatasync,fsync,sync_file_range,ftruncate,truncate,fallocate," +
	"rename,renameat,renameat2,unlink,unlinkat,lseek,close,dup,dup2,dup3"

type evKind int

const (
	evWrite evKind = iota
	evSyncStart
	evSyncEnd
	evDirSync
	evTrunc
	evFalloc
	evRename
	evUnlink
	evCreate
	evMarker
)

func (k evKind) String() string {
	return [...]string{"write", "syncstart", "syncend", "dirsync", "trunc", "falloc", "rename", "unlink", "create", "marker"}[k]
}

type event struct {
	kind   evKind
	file   int // index into history.files
	off, n int64
	name   string // rename: new basename; marker: text
	syncID int
	line   int
}

func (e event) String() string {
	return fmt.Sprintf("%s f%d off=%d n=%d %s", e.kind, e.file, e.off, e.n, e.name)
}

type fileInfo struct {
	id        int
	name      string // basename while replaying the trace ("" = unlinked)
	finalName string
	final     []byte
	frames    []frame
}

type traced struct {
	files   []*fileInfo
	events  []event
	markers []string
}

type fdState struct {
	file  int // -1: the WAL directory itself; -2: not ours
	pos   int64
	rdwr  bool
	valid bool
}

var (
	reLine    = regexp.MustCompile(`^(\d+)\s+(.*)$`)
	reResumed = regexp.MustCompile(`^<\.\.\. (\w+) resumed>(.*)$`)
	reCall    = regexp.MustCompile(`^(\w+)\((.*)\)\s+= (-?\d+|\?)(.*)$`)
	reMarker  = regexp.MustCompile(`^2,\s*"@@C05 ([^"\\]*)\\n",\s*\d+$`)
	reQuoted  = regexp.MustCompile(`"((?:[^"\\]|\\.)*)"`)
)

func harnessErr(format string, a ...interface{}) error {
	return fmt.Errorf("HARNESS: "+format, a...)
}

// runTraced executes the worker on the script under strace and returns the parsed trace.
func runTraced(base string, sc *scriptSpec) (*traced, *workerOut, error) {
	scriptPath := filepath.Join(base, "script.json")
	tracePath := filepath.Join(base, "trace.txt")
	b, _ := json.Marshal(sc)
	if err := os.WriteFile(scriptPath, b, 0644); err != nil {
		return nil, nil, harnessErr("write script: %v", err)
	}
	exe, err := os.Executable()
	if err != nil {
		return nil, nil, harnessErr("os.Executable: %v", err)
	}
	// the watchdog only guards against a wedged worker; hitting it is a harness error, never a verdict
	ctx, cancel := context.WithTimeout(context.Background(), 5*time.Minute)
	defer cancel()
	cmd := exec.CommandContext(ctx, "strace", "-f", "-qq", "-s", "96", "-o", tracePath, "-e", "trace="+traceSet, exe, "-test.run=^$")
	cmd.Env = append(os.Environ(), "VERIF_C05_WORKER="+scriptPath, "VERIF_OUT=", "GOMAXPROCS=2")
	var stderr bytes.Buffer
	cmd.Stderr = &stderr
	cmd.Stdout = nil
	runErr := cmd.Run()
	if ctx.Err() != nil {
		return nil, nil, harnessErr("worker did not finish within 5 minutes (killed)")
	}
	tb, rerr := os.ReadFile(tracePath)
	if rerr != nil {
		return nil, nil, harnessErr("strace produced no trace (%v; run error %v; stderr %q)", rerr, runErr, tail(stderr.String(), 400))
	}
	var out workerOut
	if ob, err := os.ReadFile(sc.Out); err == nil {
		json.Unmarshal(ob, &out)
	}
	tr, perr := parseTrace(tb, sc.Dir)
	if perr != nil {
		return nil, &out, perr
	}
	if runErr != nil {
		// the worker died (panic in the code under test, or killed): not a harness error
		return tr, &out, fmt.Errorf("worker process failed: %v; stderr tail: %s", runErr, tail(stderr.String(), 1500))
	}
	// final contents
	for _, f := range tr.files {
		f.finalName = f.name
		if f.name == "" {
			continue
		}
		d, err := os.ReadFile(filepath.Join(sc.Dir, f.name))
		if err != nil {
			return nil, &out, harnessErr("file %s seen in the trace cannot be read: %v", f.name, err)
		}
		f.final = d
	}
	return tr, &out, nil
}

func tail(s string, n int) string {
	if len(s) > n {
		return s[len(s)-n:]
	}
	return s
}

func unquote(s string) string {
	// strace C-style escapes; paths here are plain ASCII
	r, err := strconv.Unquote(`"` + s + `"`)
	if err != nil {
		return s
	}
	return r
}

func splitTopArgs(s string) []string {
	// split on commas outside quotes/brackets/braces
	var out []string
	depth := 0
	inq := false
	start := 0
	for i := 0; i < len(s); i++ {
		c := s[i]
		switch {
		case inq:
			if c == '\\' {
				i++
			} else if c == '"' {
				inq = false
			}
		case c == '"':
			inq = true
		case c == '[' || c == '{' || c == '(':
			depth++
		case c == ']' || c == '}' || c == ')':
			depth--
		case c == ',' && depth == 0:
			out = append(out, strings.TrimSpace(s[start:i]))
			start = i + 1
		}
	}
	out = append(out, strings.TrimSpace(s[start:]))
	return out
}

func parseTrace(tb []byte, dir string) (*traced, error) {
	tr := &traced{}
	dir = filepath.Clean(dir)
	tmpdir := dir + ".tmp"
	byName := map[string]int{}
	fds := map[int]*fdState{}
	pending := map[string]string{} // pid -> unfinished text
	pendSync := map[string]int{}   // pid -> syncID of a started fdatasync on one of our files
	nextSync := 0
	inDir := func(p string) (string, bool) {
		p = filepath.Clean(p)
		d := filepath.Dir(p)
		if b := filepath.Base(p); (d == dir || d == tmpdir) && (strings.HasSuffix(b, ".wal") || strings.HasSuffix(b, ".tmp")) {
			return b, true
		}
		return "", false
	}
	isDir := func(p string) bool { p = filepath.Clean(p); return p == dir || p == tmpdir }
	atoi := func(s string) int64 {
		s = strings.TrimSpace(s)
		if i := strings.IndexByte(s, '<'); i > 0 {
			s = s[:i]
		}
		v, _ := strconv.ParseInt(s, 0, 64)
		return v
	}
	add := func(e event) { tr.events = append(tr.events, e) }
	sc := bufio.NewScanner(bytes.NewReader(tb))
	sc.Buffer(make([]byte, 1<<20), 1<<24)
	lineNo := 0
	for sc.Scan() {
		lineNo++
		m := reLine.FindStringSubmatch(sc.Text())
		if m == nil {
			continue
		}
		pid, rest := m[1], m[2]
		if strings.HasPrefix(rest, "+++") || strings.HasPrefix(rest, "---") {
			continue
		}
		if strings.HasSuffix(rest, "<unfinished ...>") {
			txt := strings.TrimRight(strings.TrimSuffix(rest, "<unfinished ...>"), " ")
			pending[pid] = txt
			// close releases the descriptor somewhere between entry and exit; another thread's
			// openat may already return the same number before the exit is reported
			if strings.HasPrefix(txt, "close(") {
				delete(fds, int(atoi(strings.TrimRight(strings.TrimSpace(txt[len("close("):]), ", )"))))
				pending[pid] = "closed_already("
			}
			// a sync that has started: remember how much had been written before it started
			if strings.HasPrefix(txt, "fdatasync(") || strings.HasPrefix(txt, "fsync(") {
				fd := int(atoi(strings.TrimRight(strings.TrimSpace(txt[strings.IndexByte(txt, '(')+1:]), ", ")))
				if st := fds[fd]; st != nil && st.valid && st.file >= 0 {
					nextSync++
					pendSync[pid] = nextSync
					add(event{kind: evSyncStart, file: st.file, syncID: nextSync, line: lineNo})
				}
			}
			continue
		}
		startedSync := 0
		if rm := reResumed.FindStringSubmatch(rest); rm != nil {
			p, ok := pending[pid]
			if !ok {
				return nil, harnessErr("trace line %d: resumed without unfinished: %s", lineNo, rest)
			}
			delete(pending, pid)
			rest = p + rm[2]
			if id, ok := pendSync[pid]; ok {
				startedSync = id
				delete(pendSync, pid)
			}
		}
		cm := reCall.FindStringSubmatch(rest)
		if cm == nil {
			if strings.Contains(rest, "exit") {
				continue
			}
			return nil, harnessErr("trace line %d not understood: %s", lineNo, rest)
		}
		name, argstr, retS := cm[1], strings.TrimSpace(cm[2]), cm[3]
		ret := int64(-1)
		if retS != "?" {
			ret, _ = strconv.ParseInt(retS, 10, 64)
		}
		switch name {
		case "openat", "open", "creat":
			if ret < 0 {
				continue
			}
			args := splitTopArgs(argstr)
			pi := 0
			if name == "openat" {
				pi = 1
			}
			if pi >= len(args) {
				continue
			}
			qm := reQuoted.FindStringSubmatch(args[pi])
			if qm == nil {
				continue
			}
			path := unquote(qm[1])
			flags := ""
			if pi+1 < len(args) {
				flags = args[pi+1]
			}
			if isDir(path) {
				fds[int(ret)] = &fdState{file: -1, valid: true}
				continue
			}
			bn, ok := inDir(path)
			if !ok {
				delete(fds, int(ret))
				continue
			}
			if strings.Contains(flags, "O_TRUNC") || strings.Contains(flags, "O_APPEND") {
				return nil, harnessErr("trace line %d: unsupported open flags on a WAL file: %s", lineNo, rest)
			}
			id, exists := byName[bn]
			if !exists {
				if !strings.Contains(flags, "O_CREAT") && name != "creat" {
					return nil, harnessErr("trace line %d: open of unknown file %s without O_CREAT", lineNo, bn)
				}
				id = len(tr.files)
				tr.files = append(tr.files, &fileInfo{id: id, name: bn})
				byName[bn] = id
				add(event{kind: evCreate, file: id, name: bn, line: lineNo})
			}
			fds[int(ret)] = &fdState{file: id, valid: true}
		case "close":
			args := splitTopArgs(argstr)
			delete(fds, int(atoi(args[0])))
		case "closed_already":
		case "dup", "dup2", "dup3":
			args := splitTopArgs(argstr)
			if st := fds[int(atoi(args[0]))]; st != nil && st.valid {
				return nil, harnessErr("trace line %d: dup of a WAL descriptor is not modelled: %s", lineNo, rest)
			}
			if len(args) > 1 {
				delete(fds, int(atoi(args[1])))
			}
		case "read", "pread64":
			args := splitTopArgs(argstr)
			st := fds[int(atoi(args[0]))]
			if st == nil || st.file < 0 || ret <= 0 || name == "pread64" {
				continue
			}
			st.pos += ret
		case "lseek":
			args := splitTopArgs(argstr)
			st := fds[int(atoi(args[0]))]
			if st == nil || st.file < 0 || ret < 0 {
				continue
			}
			st.pos = ret
		case "write", "pwrite64", "writev":
			args := splitTopArgs(argstr)
			fd := int(atoi(args[0]))
			if fd == 2 && name == "write" {
				if mm := reMarker.FindStringSubmatch(argstr); mm != nil {
					tr.markers = append(tr.markers, mm[1])
					add(event{kind: evMarker, name: mm[1], line: lineNo})
				}
				continue
			}
			st := fds[fd]
			if st == nil || st.file < 0 {
				continue
			}
			if name != "write" {
				return nil, harnessErr("trace line %d: %s on a WAL file is not modelled", lineNo, name)
			}
			want := atoi(args[len(args)-1])
			if ret != want {
				return nil, harnessErr("trace line %d: short or failed write on a WAL file: %s", lineNo, rest)
			}
			add(event{kind: evWrite, file: st.file, off: st.pos, n: ret, line: lineNo})
			st.pos += ret
		case "fdatasync", "fsync":
			args := splitTopArgs(argstr)
			st := fds[int(atoi(args[0]))]
			if st == nil || !st.valid {
				continue
			}
			if ret != 0 {
				return nil, harnessErr("trace line %d: sync failed: %s", lineNo, rest)
			}
			if st.file == -1 {
				add(event{kind: evDirSync, line: lineNo})
				continue
			}
			if st.file < 0 {
				continue
			}
			id := startedSync
			if id == 0 {
				nextSync++
				id = nextSync
				add(event{kind: evSyncStart, file: st.file, syncID: id, line: lineNo})
			}
			add(event{kind: evSyncEnd, file: st.file, syncID: id, line: lineNo})
		case "sync_file_range", "truncate":
			if strings.Contains(argstr, dir) {
				return nil, harnessErr("trace line %d: %s is not modelled", lineNo, name)
			}
		case "ftruncate":
			args := splitTopArgs(argstr)
			st := fds[int(atoi(args[0]))]
			if st == nil || st.file < 0 {
				continue
			}
			if ret != 0 {
				return nil, harnessErr("trace line %d: ftruncate failed: %s", lineNo, rest)
			}
			add(event{kind: evTrunc, file: st.file, n: atoi(args[1]), line: lineNo})
		case "fallocate":
			args := splitTopArgs(argstr)
			st := fds[int(atoi(args[0]))]
			if st == nil || st.file < 0 {
				continue
			}
			if ret != 0 {
				return nil, harnessErr("trace line %d: fallocate failed (fallback path not modelled): %s", lineNo, rest)
			}
			mode := strings.TrimSpace(args[1])
			if mode != "0" {
				return nil, harnessErr("trace line %d: fallocate mode %s not modelled", lineNo, mode)
			}
			add(event{kind: evFalloc, file: st.file, off: atoi(args[2]), n: atoi(args[3]), line: lineNo})
		case "rename", "renameat", "renameat2":
			if ret != 0 {
				continue
			}
			var paths []string
			for _, qm := range reQuoted.FindAllStringSubmatch(argstr, -1) {
				paths = append(paths, unquote(qm[1]))
			}
			if len(paths) != 2 {
				continue
			}
			if isDir(paths[0]) || isDir(paths[1]) {
				continue // Create's rename of the temporary directory: files keep their base names
			}
			ob, ok1 := inDir(paths[0])
			nb, ok2 := inDir(paths[1])
			if !ok1 && !ok2 {
				continue
			}
			if !ok1 || !ok2 {
				return nil, harnessErr("trace line %d: rename across the WAL directory: %s", lineNo, rest)
			}
			id, ok := byName[ob]
			if !ok {
				return nil, harnessErr("trace line %d: rename of unknown file %s", lineNo, ob)
			}
			if old, ok := byName[nb]; ok {
				tr.files[old].name = ""
				add(event{kind: evUnlink, file: old, line: lineNo})
			}
			delete(byName, ob)
			byName[nb] = id
			tr.files[id].name = nb
			add(event{kind: evRename, file: id, name: nb, line: lineNo})
		case "unlink", "unlinkat":
			if ret != 0 {
				continue
			}
			qm := reQuoted.FindStringSubmatch(argstr)
			if qm == nil {
				continue
			}
			bn, ok := inDir(unquote(qm[1]))
			if !ok {
				continue
			}
			if id, ok := byName[bn]; ok {
				delete(byName, bn)
				tr.files[id].name = ""
				add(event{kind: evUnlink, file: id, line: lineNo})
			}
		}
	}
	return tr, nil
}

// ---- crash states ---------------------------------------------------------------

type fileState struct {
	name    string // current name ("" = does not exist)
	oldName string // non-empty while a rename to name is not yet covered by a directory fsync
	size    int64
	written int64 // bytes [0,written) have been written (append-only)
	synced  int64 // bytes [0,synced) are covered by a completed sync
}

type crashState struct {
	ev      int // state after events[0..ev]
	files   []fileState
	markers int // markers seen so far
	// number of bytes written per file before the start of the last completed sync (any file)
	lastSyncWritten []int64
	anySync         bool
}

// statesOf replays the events and returns the crash state after each event.
func statesOf(tr *traced) ([]crashState, error) {
	cur := make([]fileState, len(tr.files))
	pend := map[int][]int64{} // syncID -> written per file at sync start
	var lastSync []int64
	any := false
	nm := 0
	out := make([]crashState, 0, len(tr.events))
	for i, e := range tr.events {
		f := &fileState{}
		if e.kind != evDirSync && e.kind != evMarker {
			f = &cur[e.file]
		}
		switch e.kind {
		case evCreate:
			f.name = e.name
		case evWrite:
			if e.off != f.written {
				return nil, harnessErr("write at offset %d of %s but %d bytes were written so far (not append-only); trace line %d", e.off, f.name, f.written, e.line)
			}
			f.written += e.n
			if f.written > f.size {
				f.size = f.written
			}
		case evSyncStart:
			w := make([]int64, len(cur))
			for k := range cur {
				w[k] = cur[k].written
			}
			pend[e.syncID] = w
		case evSyncEnd:
			w := pend[e.syncID]
			if w == nil {
				return nil, harnessErr("sync end without start, trace line %d", e.line)
			}
			if w[e.file] > f.synced {
				f.synced = w[e.file]
			}
			lastSync = w
			any = true
			delete(pend, e.syncID)
		case evDirSync:
			for k := range cur {
				cur[k].oldName = ""
			}
		case evTrunc:
			if e.n < f.written {
				return nil, harnessErr("ftruncate of %s to %d below the %d bytes written (not modelled); trace line %d", f.name, e.n, f.written, e.line)
			}
			f.size = e.n
		case evFalloc:
			if e.off+e.n > f.size {
				f.size = e.off + e.n
			}
		case evRename:
			if f.oldName == "" {
				f.oldName = f.name
			}
			f.name = e.name
		case evUnlink:
			f.name = ""
		case evMarker:
			nm++
		}
		cs := crashState{ev: i, files: append([]fileState(nil), cur...), markers: nm, anySync: any}
		if lastSync != nil {
			cs.lastSyncWritten = lastSync
		}
		out = append(out, cs)
	}
	return out, nil
}
