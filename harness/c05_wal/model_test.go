package c05

// Reference model: the list of records a history saved, their replay semantics as the
// property states them, and an independent walk over the 8-byte framing of the segment
// files that locates each saved record (needed to know which records a completed sync
// covers and where record boundaries lie).

import (
	"crypto/sha1"
	"encoding/binary"
	"fmt"
	"sort"
	"strings"

	"github.com/youzan/ZanRedisDB/raft/raftpb"
	"github.com/youzan/ZanRedisDB/wal/walpb"
)

func hexOrSum(b []byte) string {
	if len(b) <= 24 {
		return fmt.Sprintf("%x", b)
	}
	return fmt.Sprintf("len%d:sha%x", len(b), sha1.Sum(b))
}

// canonical renderings: nil and empty byte slices are identified (protobuf equality)
func canonMeta(m []byte) string { return hexOrSum(m) }
func canonState(s raftpb.HardState) string {
	return fmt.Sprintf("term%d vote%d commit%d", s.Term, s.Vote, s.Commit)
}
func canonEntry(e *raftpb.Entry) string {
	return fmt.Sprintf("i%d t%d ty%d id%d dt%d ts%d d[%s]", e.Index, e.Term, e.Type, e.ID, e.DataType, e.Timestamp, hexOrSum(e.Data))
}
func canonEnts(es []raftpb.Entry) []string {
	out := make([]string, len(es))
	for i := range es {
		out[i] = canonEntry(&es[i])
	}
	return out
}

const (
	rkMeta = iota
	rkSnap
	rkEntry
	rkState
)

// record types of the file format (wal/wal.go)
const (
	ftMetadata = 1
	ftEntry    = 2
	ftState    = 3
	ftCrc      = 4
	ftSnapshot = 5
)

type record struct {
	kind   int
	op     int    // index of the op that saved it
	canon  string // canonical content
	index  uint64 // entry index / snapshot index
	term   uint64 // snapshot term
	commit uint64 // state commit
	// location in the segment files (file = index into history.files, -1 = never reached a file)
	file       int
	start, end int64
}

func (r *record) String() string {
	k := [...]string{"meta", "snap", "entry", "state"}[r.kind]
	return fmt.Sprintf("%s{%s}@op%d[f%d %d:%d]", k, r.canon, r.op, r.file, r.start, r.end)
}

// recordsOfOps derives the record list from the script: exactly what the statement
// calls "the records that were saved", in save order. Create saves the metadata and
// the zero snapshot marker.
func recordsOfOps(ops []opSpec) (recs []record, opEnd []int) {
	opEnd = make([]int, len(ops))
	for i, o := range ops {
		switch o.K {
		case "create":
			recs = append(recs, record{kind: rkMeta, op: i, canon: canonMeta(o.Meta), file: -1})
			recs = append(recs, record{kind: rkSnap, op: i, canon: "snap i0 t0", file: -1})
		case "save":
			for k := range o.Ents {
				e := o.Ents[k].entry()
				recs = append(recs, record{kind: rkEntry, op: i, canon: canonEntry(&e), index: e.Index, file: -1})
			}
			if o.St != nil && (o.St.Term != 0 || o.St.Vote != 0 || o.St.Commit != 0) {
				recs = append(recs, record{kind: rkState, op: i, canon: canonState(o.St.hardState()), commit: o.St.Commit, file: -1})
			}
		case "snap":
			recs = append(recs, record{kind: rkSnap, op: i, canon: fmt.Sprintf("snap i%d t%d", o.Idx, o.Term), index: o.Idx, term: o.Term, file: -1})
		}
		opEnd[i] = len(recs)
	}
	return
}

type replayResult struct {
	ok    bool
	why   string // when !ok: why a reader must fail on this prefix
	meta  string
	state string
	ents  []string
}

func (r *replayResult) key() string {
	if !r.ok {
		return "ERR"
	}
	return r.meta + "|" + r.state + "|" + strings.Join(r.ents, ",")
}

var emptyState = canonState(raftpb.HardState{})

// replay states the effect of a prefix of the saved records when the log is opened at
// snapshot (sidx, sterm): a later entry with the same index replaces the earlier one
// and everything after it, the newest hard state wins, entries up to the snapshot index
// are not returned. A prefix that holds the snapshot marker with another term, or whose
// entries do not connect to the snapshot index, has no effect to return (the reader has
// to fail on it). Whether the marker itself is inside the prefix is not part of the
// effect: the empty prefix opened at the zero snapshot has the empty effect. (ReadAll in
// write mode never reports ErrSnapshotNotFound: the error variable is overwritten by the
// result of newFileEncoder. Production only opens at markers ValidSnapshotEntries found.)
func replay(recs []record, sidx, sterm uint64) replayResult {
	res := replayResult{ok: true, state: emptyState, meta: canonMeta(nil)}
	for i := range recs {
		r := &recs[i]
		switch r.kind {
		case rkMeta:
			res.meta = r.canon
		case rkSnap:
			if r.index == sidx && r.term != sterm {
				return replayResult{why: "snapshot term mismatch"}
			}
		case rkEntry:
			if r.index > sidx {
				up := r.index - sidx - 1
				if up > uint64(len(res.ents)) {
					return replayResult{why: fmt.Sprintf("entry %d does not connect (have %d after snapshot %d)", r.index, len(res.ents), sidx)}
				}
				res.ents = append(res.ents[:up:up], r.canon)
			} else {
				// "replaces the earlier one and everything after it" also holds for an entry at or
				// below the snapshot index: what was read above the snapshot is dead (the model
				// first followed wal.ReadAll, which forgot this; see C03-wal-replay-resurrects-truncated-suffix)
				res.ents = res.ents[:0]
			}
		case rkState:
			res.state = r.canon
		}
	}
	return res
}

// validSnaps: the snapshot markers of a prefix whose index is not above the commit of
// the newest hard state of that prefix (what ValidSnapshotEntries documents).
func validSnaps(recs []record) string {
	var commit uint64
	for i := range recs {
		if recs[i].kind == rkState {
			commit = recs[i].commit
		}
	}
	var out []string
	for i := range recs {
		if recs[i].kind == rkSnap && recs[i].index <= commit {
			out = append(out, fmt.Sprintf("%d/%d", recs[i].index, recs[i].term))
		}
	}
	return strings.Join(out, " ")
}

func canonSnaps(s []walpb.Snapshot) string {
	var out []string
	for _, x := range s {
		out = append(out, fmt.Sprintf("%d/%d", x.Index, x.Term))
	}
	return strings.Join(out, " ")
}

// ---- independent walk over the framing -----------------------------------------

type frame struct {
	start, end int64 // whole frame incl. length field and padding
	recLen     int64 // bytes of the marshalled walpb.Record
	pad        int64
	typ        int64
	data       []byte
	rec        int // index of the model record held by this frame, -1 for frames the WAL adds on its own
	// offsets (absolute in file) of the envelope parts; -1 if absent
	typOff, typEnd   int64
	crcOff, crcEnd   int64
	dlenOff, dlenEnd int64
	dataOff, dataEnd int64
}

func uvarint(b []byte) (uint64, int) { return binary.Uvarint(b) }

// walkFrames parses consecutive frames until a zero length field, the end of the
// data, or something that is not a complete well-formed frame.
func walkFrames(b []byte) []frame {
	var out []frame
	off := int64(0)
	for off+8 <= int64(len(b)) {
		l := binary.LittleEndian.Uint64(b[off:])
		if l == 0 {
			break
		}
		recLen := int64(l & ^(uint64(0xff) << 56))
		pad := int64(0)
		if int64(l) < 0 {
			pad = int64((l >> 56) & 7)
		}
		if recLen <= 0 || off+8+recLen+pad > int64(len(b)) {
			break
		}
		body := b[off+8 : off+8+recLen]
		var rec walpb.Record
		if err := rec.Unmarshal(body); err != nil {
			break
		}
		f := frame{start: off, end: off + 8 + recLen + pad, recLen: recLen, pad: pad, typ: rec.Type, data: rec.Data,
			rec: -1, typOff: -1, crcOff: -1, dlenOff: -1, dataOff: -1}
		// envelope layout: 08 <type> 10 <crc> [1a <len> data]; offsets are only recorded
		// for envelopes of exactly that canonical shape
		p := 0
		base := off + 8
		for p < len(body) {
			tag := body[p]
			p++
			v, n := uvarint(body[p:])
			if n <= 0 {
				break
			}
			switch tag {
			case 0x08:
				f.typOff, f.typEnd = base+int64(p), base+int64(p+n)
				p += n
				continue
			case 0x10:
				f.crcOff, f.crcEnd = base+int64(p), base+int64(p+n)
				p += n
				continue
			case 0x1a:
				if v > uint64(len(body)-p-n) {
					break
				}
				f.dlenOff, f.dlenEnd = base+int64(p), base+int64(p+n)
				p += n
				f.dataOff, f.dataEnd = base+int64(p), base+int64(p)+int64(v)
				p += int(v)
				continue
			}
			break
		}
		out = append(out, f)
		off = f.end
	}
	return out
}

// locate assigns file positions to the model records by walking the frames of the
// segment files in sequence order. Frames the WAL adds on its own (crc records,
// the metadata copy and the re-saved hard state at the head of every later segment)
// are skipped. Returns an error if the files do not hold the saved records in order.
func locate(recs []record, files []*fileInfo) error {
	type seg struct {
		fi  int
		seq uint64
	}
	var segs []seg
	for i, f := range files {
		var seq, idx uint64
		if n, _ := fmt.Sscanf(f.finalName, "%016x-%016x.wal", &seq, &idx); n == 2 && strings.HasSuffix(f.finalName, ".wal") {
			segs = append(segs, seg{i, seq})
		}
	}
	sort.Slice(segs, func(a, b int) bool { return segs[a].seq < segs[b].seq })
	next := 0
	lastState := ""
	sawMeta := false
	for si, s := range segs {
		f := files[s.fi]
		f.frames = walkFrames(f.final)
		for k := range f.frames {
			fr := &f.frames[k]
			switch fr.typ {
			case ftCrc:
				continue
			case ftMetadata:
				if sawMeta {
					continue
				}
				sawMeta = true
			case ftState:
				var st raftpb.HardState
				if err := st.Unmarshal(fr.data); err != nil {
					return fmt.Errorf("segment %s frame %d: state does not unmarshal: %v", f.finalName, k, err)
				}
				c := canonState(st)
				// the hard state re-saved by cut(): third frame of a later segment, equal to the newest saved state
				if si > 0 && k == 2 && f.frames[1].typ == ftMetadata && c == lastState &&
					!(next < len(recs) && recs[next].kind == rkState && recs[next].canon == c) {
					continue
				}
			}
			if next >= len(recs) {
				return fmt.Errorf("segment %s frame %d (type %d): more records in the files than were saved", f.finalName, k, fr.typ)
			}
			r := &recs[next]
			var c string
			var kind int
			switch fr.typ {
			case ftMetadata:
				kind, c = rkMeta, canonMeta(fr.data)
			case ftEntry:
				var e raftpb.Entry
				if err := e.Unmarshal(fr.data); err != nil {
					return fmt.Errorf("segment %s frame %d: entry does not unmarshal: %v", f.finalName, k, err)
				}
				kind, c = rkEntry, canonEntry(&e)
			case ftState:
				var st raftpb.HardState
				st.Unmarshal(fr.data)
				kind, c = rkState, canonState(st)
			case ftSnapshot:
				var sn walpb.Snapshot
				if err := sn.Unmarshal(fr.data); err != nil {
					return fmt.Errorf("segment %s frame %d: snapshot does not unmarshal: %v", f.finalName, k, err)
				}
				kind, c = rkSnap, fmt.Sprintf("snap i%d t%d", sn.Index, sn.Term)
			default:
				return fmt.Errorf("segment %s frame %d: unknown type %d", f.finalName, k, fr.typ)
			}
			if kind != r.kind || c != r.canon {
				return fmt.Errorf("segment %s frame %d holds %s, but the next saved record is %s", f.finalName, k, c, r)
			}
			r.file, r.start, r.end = s.fi, fr.start, fr.end
			fr.rec = next
			if kind == rkState {
				lastState = c
			}
			next++
		}
	}
	return nil
}
