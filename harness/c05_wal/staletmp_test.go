package c05

import (
	"fmt"
	"os"
	"path/filepath"
	"testing"

	"github.com/youzan/ZanRedisDB/raft/raftpb"
	"github.com/youzan/ZanRedisDB/wal"
	"github.com/youzan/ZanRedisDB/wal/walpb"

	"verifharness/lib/known"
)

// A process that dies inside WAL.cut after it wrote the header records (crc, metadata, hard
// state) into the pipeline's temp file and before the rename leaves that N.tmp behind with
// non-zero bytes. The next incarnation's file pipeline re-opens the same name without
// truncating it (O_CREATE only, Preallocate only extends) and a later cut writes its own header
// from offset 0. The frame of the hard-state record is 8 bytes shorter or longer depending on
// the varint length of its crc, so the new header can end before the old one did: the left-over
// word is then read as the length field of the next record. If the process dies again before a
// further record overwrites it, the WAL no longer opens (wal: crc mismatch / walpb: crc
// mismatch), and the node stays down. Seen once by the C06 thorough tier (4 KiB segments cut
// every few saves); here the leftover is planted.
func TestKnownStaleTmpSegment(t *testing.T) {
	known.Probe(t, "C05-stale-tmp-segment-reused-untruncated", func() (bool, string) {
		wal.VerifQuietLog()
		oldSeg := wal.SegmentSizeBytes
		wal.SegmentSizeBytes = 4096
		defer func() { wal.SegmentSizeBytes = oldSeg }()
		base := scratchDir("c05-staletmp-")
		defer os.RemoveAll(base)
		dir := filepath.Join(base, "w")
		w, err := wal.Create(dir, []byte("meta"), true)
		if err != nil {
			return false, "HARNESS: create: " + err.Error()
		}
		ent := func(i uint64) raftpb.Entry { return raftpb.Entry{Term: 1, Index: i, Data: payload(300, 0, byte(i))} }
		if err := w.Save(raftpb.HardState{Term: 1, Vote: 1, Commit: 0}, []raftpb.Entry{ent(1), ent(2)}); err != nil {
			return false, "HARNESS: save: " + err.Error()
		}
		w.Close()
		// the leftover of an incarnation that died inside cut(): a header-sized run of non-zero bytes
		stale := make([]byte, 4096)
		for i := 0; i < 160; i++ {
			stale[i] = 0x5a
		}
		for _, n := range []string{"0.tmp", "1.tmp"} {
			if err := os.WriteFile(filepath.Join(dir, n), stale, 0600); err != nil {
				return false, "HARNESS: " + err.Error()
			}
		}
		w, err = wal.Open(dir, walpb.Snapshot{}, true)
		if err != nil {
			return false, "HARNESS: open: " + err.Error()
		}
		if _, _, _, err := w.ReadAll(); err != nil {
			return false, "HARNESS: readall: " + err.Error()
		}
		segs := func() int {
			m, _ := filepath.Glob(filepath.Join(dir, "*.wal"))
			return len(m)
		}
		last := uint64(2)
		for segs() < 2 && last < 60 {
			last++
			if err := w.Save(raftpb.HardState{Term: 1, Vote: 1, Commit: last - 1}, []raftpb.Entry{ent(last)}); err != nil {
				return false, "HARNESS: save: " + err.Error()
			}
		}
		if segs() < 2 {
			return false, "HARNESS: the history did not roll the segment"
		}
		// the process ends right after the Save that rolled the segment (everything it wrote is in the files)
		w.Close()
		w, err = wal.Open(dir, walpb.Snapshot{}, true)
		if err != nil {
			return true, fmt.Sprintf("after a Save that rolled the segment into a reused, non-empty temp file the log does not open: %v", err)
		}
		defer w.Close()
		_, _, ents, err := w.ReadAll()
		if err != nil {
			return true, fmt.Sprintf("after a Save that rolled the segment into a reused, non-empty temp file (left by an incarnation that died inside cut) ReadAll fails: %v; %d entries were saved and acknowledged", err, last)
		}
		if uint64(len(ents)) != last {
			return true, fmt.Sprintf("ReadAll returned %d entries, %d were saved", len(ents), last)
		}
		return false, ""
	})
}
