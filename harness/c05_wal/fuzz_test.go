package c05

// Native fuzz target (thorough tier): a mutated segment file is handed to the read side
// (ValidSnapshotEntries, Verify, Open+ReadAll with the one Repair). Oracle: no panic, and
// on success nothing is returned that the seed logs did not contain.

import (
	"fmt"
	"os"
	"path/filepath"
	"testing"

	"github.com/youzan/ZanRedisDB/raft/raftpb"
	"github.com/youzan/ZanRedisDB/wal"
	"github.com/youzan/ZanRedisDB/wal/walpb"

	"verifharness/lib/known"
)

const seg0 = "0000000000000000-0000000000000000.wal"

type fuzzSeed struct {
	data []byte
}

// seedSegments writes small logs with the real WAL and returns their first segment
// (trailing preallocated zeros cut to 24 bytes) plus everything they contain.
func seedSegments() (seeds [][]byte, metas, states, ents map[string]bool, dataType map[string]int64) {
	metas, states, ents = map[string]bool{canonMeta(nil): true}, map[string]bool{emptyState: true}, map[string]bool{}
	dataType = map[string]int64{}
	histories := [][]opSpec{
		{
			{K: "create", Meta: []byte("m"), Seg: 64 * 1024},
			{K: "save", St: &hsSpec{Term: 1, Vote: 1, Commit: 0}, Ents: []entSpec{{Index: 1, Term: 1, Size: 1}, {Index: 2, Term: 1, Size: 7}, {Index: 3, Term: 1, Size: 8}}},
			{K: "save", St: &hsSpec{Term: 1, Vote: 1, Commit: 2}},
			{K: "snap", Idx: 2, Term: 1},
			{K: "save", St: &hsSpec{Term: 2, Vote: 2, Commit: 2}, Ents: []entSpec{{Index: 3, Term: 2, Size: 9}, {Index: 4, Term: 2, Size: 0}}},
		},
		{
			{K: "create", Meta: []byte(`{"ID":1,"GroupName":"ns-0","GroupID":7}`), Seg: 64 * 1024, Opt: true},
			{K: "save", St: &hsSpec{Term: 3, Vote: 0, Commit: 0}},
			{K: "save", Ents: []entSpec{{Index: 1, Term: 3, Size: 520, Kind: 1}, {Index: 2, Term: 3, Size: 30, Kind: 3, Seed: 5, ID: 77, DataType: 1, Timestamp: 1600000000000000000}}},
			{K: "save", St: &hsSpec{Term: 3, Vote: 2, Commit: 1}},
			{K: "sync"},
		},
		{
			{K: "create", Meta: nil, Seg: 64 * 1024},
			{K: "save", St: &hsSpec{Term: 1, Vote: 1, Commit: 0}, Ents: []entSpec{{Index: 1, Term: 1, Size: 100, Kind: 4, Type: 1}}},
		},
	}
	for _, ops := range histories {
		base := scratchDir("c05seed-")
		dir := filepath.Join(base, "w")
		wal.SegmentSizeBytes = ops[0].Seg
		w, err := wal.Create(dir, ops[0].Meta, ops[0].Opt)
		if err != nil {
			harnessDie("seed create: %v", err)
		}
		for _, o := range ops[1:] {
			switch o.K {
			case "save":
				var es []raftpb.Entry
				for _, e := range o.Ents {
					es = append(es, e.entry())
				}
				err = w.Save(o.St.hardState(), es)
			case "snap":
				err = w.SaveSnapshot(walpb.Snapshot{Index: o.Idx, Term: o.Term})
			case "sync":
				err = w.Sync()
			}
			if err != nil {
				harnessDie("seed %s: %v", o.K, err)
			}
		}
		w.Close()
		d, err := os.ReadFile(filepath.Join(dir, seg0))
		if err != nil {
			harnessDie("seed read: %v", err)
		}
		os.RemoveAll(base)
		frames := walkFrames(d)
		end := frames[len(frames)-1].end
		seeds = append(seeds, append([]byte{}, d[:end+24]...))
		for _, fr := range frames {
			dataType[string(fr.data)] = fr.typ
		}
		recs, _ := recordsOfOps(ops)
		for _, r := range recs {
			switch r.kind {
			case rkMeta:
				metas[r.canon] = true
			case rkState:
				states[r.canon] = true
			case rkEntry:
				ents[r.canon] = true
			}
		}
	}
	return
}

func FuzzWALSegment(f *testing.F) {
	wal.VerifQuietLog()
	seeds, metas, states, ents, dataType := seedSegments()
	for _, s := range seeds {
		f.Add(s)
	}
	excludeType := known.Active(kfType)
	f.Fuzz(func(t *testing.T, data []byte) {
		if len(data) > 256*1024 {
			return
		}
		if excludeType {
			// known finding: a record whose data is that of a seed record but whose type differs
			for _, fr := range walkFrames(data) {
				if ty, ok := dataType[string(fr.data)]; ok && ty != fr.typ && len(fr.data) > 0 {
					return
				}
			}
		}
		base := scratchDir("c05fuzz-")
		defer os.RemoveAll(base)
		dir := filepath.Join(base, "w")
		// the file as the WAL would find it: the bytes followed by preallocated zeros
		img := make([]byte, (len(data)/sector+3)*sector)
		copy(img, data)
		writeImage(dir, map[string][]byte{seg0: img})
		wal.SegmentSizeBytes = 64 * 1024
		func() {
			defer func() {
				if p := recover(); p != nil {
					t.Fatalf("ValidSnapshotEntries panicked: %v", p)
				}
			}()
			wal.ValidSnapshotEntries(dir)
		}()
		func() {
			defer func() {
				if p := recover(); p != nil {
					t.Fatalf("Verify panicked: %v", p)
				}
			}()
			wal.Verify(dir, walpb.Snapshot{})
		}()
		r := safeOpen(dir, walpb.Snapshot{}, false)
		if r.panicked != nil {
			t.Fatalf("Open/ReadAll/Repair panicked: %v", r.panicked)
		}
		if r.err != nil {
			return
		}
		defer r.w.Close()
		if !metas[canonMeta(r.meta)] {
			t.Fatalf("returned metadata %s was never saved", canonMeta(r.meta))
		}
		if !states[canonState(r.st)] {
			t.Fatalf("returned hard state {%s} was never saved", canonState(r.st))
		}
		for i := range r.ents {
			if c := canonEntry(&r.ents[i]); !ents[c] {
				t.Fatalf("returned entry %s was never saved (%s)", c, fmt.Sprint(len(r.ents)))
			}
			if r.ents[i].Index != uint64(i+1) {
				t.Fatalf("returned entries are not contiguous from 1: position %d holds index %d", i, r.ents[i].Index)
			}
		}
	})
}
