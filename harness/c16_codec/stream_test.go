package c16

import (
	"bytes"
	"fmt"
	"io"
	"sync/atomic"
	"testing"
	"time"

	pb "github.com/youzan/ZanRedisDB/raft/raftpb"
	"github.com/youzan/ZanRedisDB/transport/rafthttp"
	"pgregory.net/rapid"

	"verifharness/lib/stats"
)

var recStream = stats.New("stream_writer", "the real streamWriter (startStreamWriter / run / attach / stop, hook rafthttp.VerifStreamWriterRun) in front of the real decoder: a generated message sequence is queued partly before a connection is attached (the backlog a reconnect finds: 0, a few, or around the writer's flush-batch limit of half its queue and up to the full queue) and partly in batches afterwards; MsgApp goes to a msgappv2 stream, every other type except MsgSnap to a message stream, as peer.pick routes them. Oracle: the messages decoded from the bytes on the connection (link heartbeats removed) are exactly the messages the queue accepted, in order; non-trivial = the backlog exceeded the flush-batch limit, or messages of >= 2 groups were interleaved")

// undrained counts cases in which the writer's queue did not drain within the time limit
// (nothing can be concluded from such a case; it is counted, not judged).
var undrained int32

// TestStreamWriter: what was written to a peer stream is what the other side reads.
func TestStreamWriter(t *testing.T) {
	rapid.Check(t, func(t *rapid.T) {
		v2 := rapid.Bool().Draw(t, "v2")
		local := rapid.Uint64Range(1, 9).Draw(t, "local")
		remote := rapid.Uint64Range(1, 9).Draw(t, "remote")
		var base []pb.Message
		if v2 {
			base = genV2Stream(t, local, remote, 14, false)
		} else {
			n := rapid.IntRange(1, 10).Draw(t, "nmsgs")
			for i := 0; i < n; i++ {
				m := genAnyMessage(t, false)
				for m.Type == pb.MsgSnap || m.Type == pb.MsgApp {
					m.Type = rapid.SampledFrom(allTypes).Draw(t, "retype")
				}
				base = append(base, m)
			}
		}
		// link heartbeats are the writer's own filler (it adds one per tick and the reader drops
		// them): they are not part of the sequence written to the stream
		{
			var b []pb.Message
			for _, m := range base {
				if !(m.Type == pb.MsgHeartbeat && m.From == 0 && m.To == 0) {
					b = append(b, m)
				}
			}
			if len(b) == 0 {
				b = append(b, pb.Message{Type: pb.MsgApp, From: 1, To: 2, Term: 1, LogTerm: 1, Index: 1,
					FromGroup: pb.Group{NodeId: remote, Name: "ns-30", GroupId: 1000, RaftReplicaId: 1},
					ToGroup:   pb.Group{NodeId: local, Name: "ns-30", GroupId: 1000, RaftReplicaId: 2}})
				if !v2 {
					b[0].Type = pb.MsgAppResp
				}
			}
			base = b
		}
		half := rafthttp.VerifStreamBufSize / 2
		backlog := rapid.IntRange(0, len(base)).Draw(t, "backlog")
		switch rapid.IntRange(0, 7).Draw(t, "bigbacklog") {
		case 0:
			backlog = half + rapid.IntRange(-2, 3).Draw(t, "aroundhalf")
		case 1:
			backlog = rapid.SampledFrom([]int{half + 500, 2*half - 1, 2 * half, 2*half + 5, 3 * half / 2}).Draw(t, "big")
		}
		// a long backlog repeats the generated messages with the index moving on (so that no two are equal)
		mk := func(i int) pb.Message {
			m := base[i%len(base)]
			if i >= len(base) {
				m.Index += uint64(i / len(base))
				m.Commit += uint64(i / len(base))
			}
			return m
		}
		var pre []pb.Message
		for i := 0; i < backlog; i++ {
			pre = append(pre, mk(i))
		}
		var post [][]pb.Message
		next := backlog
		for b := rapid.IntRange(0, 3).Draw(t, "nbatches"); b > 0; b-- {
			var batch []pb.Message
			for k := rapid.IntRange(1, 12).Draw(t, "batchlen"); k > 0; k-- {
				batch = append(batch, mk(next))
				next++
			}
			post = append(post, batch)
		}
		if atomic.LoadInt32(&undrained) >= 3 {
			// a machine on which the writer goroutine does not get to run: stop spending time, the
			// cases already judged stand
			return
		}
		accPre, accPost, data, ok := rafthttp.VerifStreamWriterRun(v2, remote, pre, post, 10*time.Second)
		if !ok {
			atomic.AddInt32(&undrained, 1)
			recStream.Count("queue_not_drained_within_limit", 1)
			return
		}
		var want []string
		var sent []pb.Message
		for i := 0; i < accPre; i++ {
			sent = append(sent, pre[i])
		}
		for b, n := range accPost {
			sent = append(sent, post[b][:n]...)
		}
		for i := range sent {
			want = append(want, canon(&sent[i]))
		}
		if backlog <= 2*half && accPre != backlog {
			t.Fatalf("the writer's queue (capacity %d) accepted only %d of %d backlog messages", 2*half, accPre, backlog)
		}
		var dec rafthttp.VerifDecoder
		if v2 {
			dec = rafthttp.VerifNewMsgAppV2Decoder(bytes.NewReader(data), local, remote)
		} else {
			dec = rafthttp.VerifNewMessageDecoder(bytes.NewReader(data))
		}
		hb := rafthttp.VerifLinkHeartbeat()
		hbc := canon(&hb)
		var got []string
		for {
			m, err := dec.Decode()
			if err == io.EOF {
				break
			}
			if err != nil {
				t.Fatalf("decoding what the stream writer wrote: message %d of %d: %v", len(got), len(want), err)
			}
			if c := canon(&m); c != hbc {
				got = append(got, c)
			}
		}
		for i := 0; i < len(got) && i < len(want); i++ {
			if got[i] != want[i] {
				t.Fatalf("message %d read from the stream differs from message %d written to it (backlog %d, %d written):\n  read:    %s\n  written: %s", i, i, backlog, len(want), got[i], want[i])
			}
		}
		if len(got) != len(want) {
			t.Fatalf("%d messages were accepted by the stream writer (backlog %d before the connection, %v after), %d were read back from the stream", len(want), accPre, accPost, len(got))
		}
		groups := map[string]bool{}
		for i := range sent {
			groups[canonGroup(&sent[i].ToGroup)] = true
		}
		var labels []string
		if backlog > half {
			labels = append(labels, "backlog_over_flush_batch_limit")
		}
		if backlog == 0 {
			labels = append(labels, "no_backlog")
		}
		if len(sent) == 0 {
			labels = append(labels, "nothing_sent")
		}
		recStream.Record(stats.HashString(fmt.Sprint(v2, backlog, len(post), want[:min(len(want), 20)])), backlog > half || len(groups) >= 2, labels, func() interface{} {
			return map[string]interface{}{"msgappv2_stream": v2, "backlog_before_attach": backlog, "batches_after": accPost, "messages": len(want), "first": want[:min(len(want), 3)]}
		})
	})
}

func min(a, b int) int {
	if a < b {
		return a
	}
	return b
}
