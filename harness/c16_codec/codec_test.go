package c16

import (
	"bytes"
	"crypto/sha1"
	"fmt"
	"io"
	"os"
	"strings"
	"testing"

	pb "github.com/youzan/ZanRedisDB/raft/raftpb"
	"github.com/youzan/ZanRedisDB/transport/rafthttp"
	"pgregory.net/rapid"

	"verifharness/lib/known"
	"verifharness/lib/stats"
)

func TestMain(m *testing.M) { stats.Main(m) }

const bufSize = 1024 * 1024 // msgAppV2BufSize

var (
	recV2 = stats.New("msgappv2_roundtrip", "sequence of MsgApp-shaped messages of 1-6 groups over one stream; non-trivial = the compact continuation frame was used for >=1 message AND a message of another group was interleaved between two messages of one group")
	recV2Trunc = stats.New("msgappv2_truncation", "every (or, for streams > 600 bytes, 8-64 sampled plus all frame-boundary-adjacent) truncation point of an encoded msgappv2 stream; non-trivial = cut strictly inside a frame")
	recMsg = stats.New("message_roundtrip", "sequence of messages of every type with arbitrary field values incl. snapshot and context; non-trivial = >=2 messages, one carrying entries or a snapshot with conf state")
	recMsgTrunc = stats.New("message_truncation", "every (or, for streams > 600 bytes, sampled plus boundary-adjacent) truncation point of an encoded message stream; non-trivial = cut strictly inside a frame")
	recCorrupt = stats.New("corrupt_stream", "valid stream with 1-3 mutated bytes (length fields preferred); oracle: decoder terminates with messages or an error, no panic; non-trivial = a length/type byte was mutated")
)

func payload(n int, seed byte) []byte {
	if n == 0 {
		return []byte{}
	}
	b := make([]byte, n)
	for i := range b {
		b[i] = byte(i)*seed + byte(i>>8) + seed
	}
	return b
}

func hexOrSum(b []byte) string {
	if len(b) <= 48 {
		return fmt.Sprintf("%x", b)
	}
	return fmt.Sprintf("len%d:sha%x", len(b), sha1.Sum(b))
}

func canonGroup(g *pb.Group) string {
	if g == nil {
		return "<nil>"
	}
	return fmt.Sprintf("{n%d %q g%d r%d}", g.NodeId, g.Name, g.GroupId, g.RaftReplicaId)
}

// canon renders a message with nil and empty slices identified (protobuf equality).
func canon(m *pb.Message) string {
	var b strings.Builder
	fmt.Fprintf(&b, "T%d to%d from%d term%d lt%d idx%d c%d rej%v hint%d ctx[%s] fg%s tg%s ents[", m.Type, m.To, m.From, m.Term, m.LogTerm,
		m.Index, m.Commit, m.Reject, m.RejectHint, hexOrSum(m.Context), canonGroup(&m.FromGroup), canonGroup(&m.ToGroup))
	for i := range m.Entries {
		e := &m.Entries[i]
		fmt.Fprintf(&b, "(%d %d %d %s %d %d %d)", e.Term, e.Index, e.Type, hexOrSum(e.Data), e.ID, e.DataType, e.Timestamp)
	}
	s := &m.Snapshot
	fmt.Fprintf(&b, "] snap[%s i%d t%d n%v l%v g[", hexOrSum(s.Data), s.Metadata.Index, s.Metadata.Term, nz(s.Metadata.ConfState.Nodes), nz(s.Metadata.ConfState.Learners))
	for _, g := range s.Metadata.ConfState.Groups {
		b.WriteString(canonGroup(g))
	}
	b.WriteString("] lg[")
	for _, g := range s.Metadata.ConfState.LearnerGroups {
		b.WriteString(canonGroup(g))
	}
	b.WriteString("]]")
	return b.String()
}

func nz(v []uint64) []uint64 {
	if v == nil {
		return []uint64{}
	}
	return v
}

type grp struct {
	from, to pb.Group
	term     uint64
	last     uint64
}

var sizeClasses = []int{0, 0, 1, 1, 2, 7, 16, 100, 1000, -1, -1, -2}

func drawPayload(t *rapid.T, allowBig bool) []byte {
	c := rapid.SampledFrom(sizeClasses).Draw(t, "szclass")
	seed := rapid.Byte().Draw(t, "pseed")
	switch {
	case c >= 0:
		return payload(c, seed)
	case c == -1:
		return rapid.SliceOfN(rapid.Byte(), 0, 40).Draw(t, "data")
	default:
		if !allowBig {
			return payload(300, seed)
		}
		// around the 1 MiB buffer limit (entry and message headers are 10-80 bytes), or 3 MiB
		k := rapid.SampledFrom([]int{bufSize - 80, bufSize - 40, bufSize - 16, bufSize - 8, bufSize - 1, bufSize, bufSize + 1, bufSize + 16, 3 * bufSize}).Draw(t, "big")
		k += rapid.IntRange(-8, 8).Draw(t, "bigoff")
		return payload(k, seed)
	}
}

// genV2Stream draws a sequence of messages of the shape raft hands to the msgappv2
// stream (only MsgApp is routed there by peer.pick, plus link heartbeats).
func genV2Stream(t *rapid.T, local, remote uint64, maxMsgs int, allowBig bool) []pb.Message {
	ng := rapid.IntRange(1, 6).Draw(t, "ngroups")
	groups := make([]*grp, ng)
	for i := range groups {
		gid := rapid.SampledFrom([]uint64{1000, 1000, 1001, 7, 1 << 40}).Draw(t, "gid")
		fr := rapid.Uint64Range(1, 4).Draw(t, "fromReplica")
		to := rapid.Uint64Range(1, 4).Draw(t, "toReplica")
		// the group name is a function of the group id in production (MinGID+partition <-> "ns-partition")
		name := fmt.Sprintf("ns-%d", gid%97)
		groups[i] = &grp{
			from: pb.Group{NodeId: remote, Name: name, GroupId: gid, RaftReplicaId: fr},
			to:   pb.Group{NodeId: local, Name: name, GroupId: gid, RaftReplicaId: to},
			term: rapid.Uint64Range(1, 3).Draw(t, "t0"),
			last: rapid.Uint64Range(0, 5).Draw(t, "i0"),
		}
	}
	n := rapid.IntRange(1, maxMsgs).Draw(t, "nmsgs")
	var msgs []pb.Message
	var encIndex, encTerm uint64 // what a tracker of "the last message" would hold; used only to bias the generator
	cur := groups[0]
	bigUsed := false
	for k := 0; k < n; k++ {
		act := rapid.IntRange(0, 99).Draw(t, "act")
		if act < 6 {
			msgs = append(msgs, rafthttp.VerifLinkHeartbeat())
			continue
		}
		if act < 40 && ng > 1 {
			cur = groups[rapid.IntRange(0, ng-1).Draw(t, "g")]
		}
		g := cur
		m := pb.Message{Type: pb.MsgApp, From: g.from.RaftReplicaId, To: g.to.RaftReplicaId, FromGroup: g.from, ToGroup: g.to}
		switch rapid.IntRange(0, 9).Draw(t, "termact") {
		case 0:
			g.term++
		case 1:
			g.term = encTerm // same term as whatever was sent last on the stream
			if g.term == 0 {
				g.term = 1
			}
		}
		m.Term = g.term
		switch rapid.IntRange(0, 9).Draw(t, "idxact") {
		case 0, 1, 2, 3, 4: // continue this group's log
			m.Index = g.last
		case 5, 6, 7: // same position as the last message on the stream, whatever group that was
			m.Index = encIndex
		case 8: // gap or resend
			m.Index = rapid.Uint64Range(0, g.last+3).Draw(t, "idx")
		default:
			m.Index = rapid.Uint64().Draw(t, "idxany")
			if m.Index > 1<<62 {
				m.Index = 1 << 62
			}
		}
		if rapid.IntRange(0, 9).Draw(t, "ltact") < 7 {
			m.LogTerm = m.Term
		} else {
			m.LogTerm = rapid.Uint64Range(0, m.Term).Draw(t, "logterm")
		}
		ne := rapid.SampledFrom([]int{0, 1, 1, 1, 2, 3, 5}).Draw(t, "nents")
		for i := 0; i < ne; i++ {
			e := pb.Entry{Term: m.Term, Index: m.Index + 1 + uint64(i)}
			if rapid.IntRange(0, 9).Draw(t, "et") == 0 && m.Term > 1 {
				e.Term = m.Term - 1
			}
			if rapid.IntRange(0, 9).Draw(t, "ety") == 0 {
				e.Type = pb.EntryConfChange
			}
			big := allowBig && !bigUsed
			e.Data = drawPayload(t, big)
			if len(e.Data) > bufSize/2 {
				bigUsed = true
			}
			if rapid.Bool().Draw(t, "nildata") && len(e.Data) == 0 {
				e.Data = nil
			}
			if rapid.Bool().Draw(t, "meta") {
				e.ID = rapid.Uint64().Draw(t, "eid")
				e.DataType = rapid.Int32Range(0, 3).Draw(t, "edt")
				e.Timestamp = rapid.Int64().Draw(t, "ets")
			}
			m.Entries = append(m.Entries, e)
		}
		m.Commit = rapid.Uint64Range(0, m.Index+uint64(ne)).Draw(t, "commit")
		g.last = m.Index + uint64(ne)
		encIndex, encTerm = g.last, m.Term
		msgs = append(msgs, m)
	}
	return msgs
}

type frame struct {
	off int
	typ byte
}

func encodeV2(msgs []pb.Message) ([]byte, []frame, error) {
	var buf bytes.Buffer
	enc := rafthttp.VerifNewMsgAppV2Encoder(&buf)
	var frames []frame
	for i := range msgs {
		off := buf.Len()
		m := msgs[i]
		if err := enc.Encode(&m); err != nil {
			return nil, nil, err
		}
		frames = append(frames, frame{off, buf.Bytes()[off]})
	}
	return buf.Bytes(), frames, nil
}

func describe(msgs []pb.Message) []string {
	var out []string
	for i := range msgs {
		out = append(out, canon(&msgs[i]))
		if len(out) >= 12 {
			out = append(out, fmt.Sprintf("... %d more", len(msgs)-12))
			break
		}
	}
	return out
}

func TestMsgAppV2RoundTrip(t *testing.T) {
	rapid.Check(t, func(t *rapid.T) {
		local := rapid.Uint64Range(1, 9).Draw(t, "local")
		remote := rapid.Uint64Range(1, 9).Draw(t, "remote")
		msgs := genV2Stream(t, local, remote, 14, true)
		want := make([]string, len(msgs))
		for i := range msgs {
			want[i] = canon(&msgs[i])
		}
		data, frames, err := encodeV2(msgs)
		if err != nil {
			t.Fatalf("encode: %v", err)
		}
		dec := rafthttp.VerifNewMsgAppV2Decoder(bytes.NewReader(data), local, remote)
		got := make([]pb.Message, 0, len(msgs))
		for i := range msgs {
			m, err := dec.Decode()
			if err != nil {
				t.Fatalf("decode message %d of %d: %v\nsent: %s", i, len(msgs), err, want[i])
			}
			got = append(got, m)
		}
		if _, err := dec.Decode(); err != io.EOF {
			t.Fatalf("expected io.EOF after the last message, got %v", err)
		}
		// compare after everything is decoded: catches aliasing of the reused buffer
		for i := range got {
			if c := canon(&got[i]); c != want[i] {
				t.Fatalf("message %d differs (frame type %d)\nsent: %s\nrecv: %s", i, frames[i].typ, want[i], c)
			}
		}
		compact, interleaved, big := 0, false, false
		lastOf := map[string]int{}
		for i := range msgs {
			if frames[i].typ == 1 {
				compact++
			}
			if msgs[i].From == 0 {
				continue
			}
			key := canonGroup(&msgs[i].FromGroup) + canonGroup(&msgs[i].ToGroup)
			if j, ok := lastOf[key]; ok {
				for k := j + 1; k < i; k++ {
					if msgs[k].From != 0 && canonGroup(&msgs[k].FromGroup)+canonGroup(&msgs[k].ToGroup) != key {
						interleaved = true
					}
				}
			}
			lastOf[key] = i
			for _, e := range msgs[i].Entries {
				if len(e.Data) > bufSize/2 {
					big = true
				}
			}
		}
		var labels []string
		if compact > 0 {
			labels = append(labels, "compact_frame_used")
		}
		if interleaved {
			labels = append(labels, "groups_interleaved")
		}
		if big {
			labels = append(labels, "entry_near_or_over_buffer_limit")
		}
		recV2.Record(stats.HashString(strings.Join(want, "\n")), compact > 0 && interleaved, labels, func() interface{} {
			return map[string]interface{}{"local": local, "remote": remote, "messages": describe(msgs), "stream_bytes": len(data), "compact_frames": compact}
		})
	})
}

// decodeAll decodes until the first error and returns what came before it.
func decodeAll(dec rafthttp.VerifDecoder, max int) (out []pb.Message, err error) {
	for len(out) < max {
		m, e := dec.Decode()
		if e != nil {
			return out, e
		}
		out = append(out, m)
	}
	return out, nil
}

func checkTruncations(t *rapid.T, data []byte, bounds []int, want []string, newDec func(r io.Reader) rafthttp.VerifDecoder, rec *stats.Recorder, what string, inner ...int) {
	var cuts []int
	// inner: offsets inside a frame where a cut leaves a well-formed shorter protobuf message (field boundaries)
	for _, b := range inner {
		for _, d := range []int{-1, 0, 1} {
			if c := b + d; c > 0 && c < len(data) {
				cuts = append(cuts, c)
			}
		}
	}
	if len(data) <= 600 {
		for c := 0; c < len(data); c++ {
			cuts = append(cuts, c)
		}
	} else {
		k := rapid.IntRange(8, 64).Draw(t, "ncuts")
		for i := 0; i < k; i++ {
			cuts = append(cuts, rapid.IntRange(0, len(data)-1).Draw(t, "cut"))
		}
		for _, b := range bounds {
			for _, d := range []int{-1, 0, 1, 8, 9} {
				if c := b + d; c >= 0 && c < len(data) {
					cuts = append(cuts, c)
				}
			}
		}
	}
	isBound := map[int]bool{}
	for _, b := range bounds {
		isBound[b] = true
	}
	for _, c := range cuts {
		got, err := decodeAll(newDec(bytes.NewReader(data[:c])), len(want)+2)
		if err == nil {
			t.Fatalf("%s: stream cut at %d of %d: decoder returned %d messages and no error", what, c, len(data), len(got))
		}
		// number of complete frames in data[:c]
		complete := 0
		for _, b := range bounds[1:] {
			if b <= c {
				complete++
			}
		}
		if len(got) > complete {
			t.Fatalf("%s: stream cut at %d of %d: %d messages returned but only %d complete frames were present; extra: %s", what, c, len(data), len(got), complete, canon(&got[len(got)-1]))
		}
		if len(got) < complete {
			t.Fatalf("%s: stream cut at %d of %d: only %d of %d complete frames returned before error %v", what, c, len(data), len(got), complete, err)
		}
		for i := range got {
			if cg := canon(&got[i]); cg != want[i] {
				t.Fatalf("%s: stream cut at %d: message %d differs\nsent: %s\nrecv: %s", what, c, i, want[i], cg)
			}
		}
		rec.Record(stats.Hash(data[:c]), !isBound[c], nil, func() interface{} {
			return map[string]interface{}{"stream_bytes": len(data), "cut_at": c, "complete_frames_before_cut": complete, "messages_returned": len(got), "error": err.Error()}
		})
	}
}

func TestMsgAppV2Truncation(t *testing.T) {
	rapid.Check(t, func(t *rapid.T) {
		local := rapid.Uint64Range(1, 9).Draw(t, "local")
		remote := rapid.Uint64Range(1, 9).Draw(t, "remote")
		msgs := genV2Stream(t, local, remote, 6, false)
		var inner []int
		if rapid.IntRange(0, 9).Draw(t, "bigmsg") == 0 && msgs[0].From != 0 {
			// first message (always a full frame) above the 1 MiB buffer, cut at its field boundaries too
			m := &msgs[0]
			m.Entries = nil
			for k := 0; k < rapid.IntRange(2, 4).Draw(t, "nbig"); k++ {
				m.Entries = append(m.Entries, pb.Entry{Term: m.Term, Index: m.Index + 1 + uint64(k), Data: payload(rapid.SampledFrom([]int{400000, 524288, 700000}).Draw(t, "bigsz"), byte(k+1))})
			}
			for _, b := range fieldBoundaries(*m) {
				inner = append(inner, 9+b) // type byte + 8-byte length
			}
		}
		want := make([]string, len(msgs))
		for i := range msgs {
			want[i] = canon(&msgs[i])
		}
		data, frames, err := encodeV2(msgs)
		if err != nil {
			t.Fatalf("encode: %v", err)
		}
		bounds := []int{}
		for _, f := range frames {
			bounds = append(bounds, f.off)
		}
		bounds = append(bounds, len(data))
		checkTruncations(t, data, bounds, want, func(r io.Reader) rafthttp.VerifDecoder {
			return rafthttp.VerifNewMsgAppV2Decoder(r, local, remote)
		}, recV2Trunc, "msgappv2", inner...)
	})
}

var allTypes = []pb.MessageType{pb.MsgHup, pb.MsgBeat, pb.MsgProp, pb.MsgApp, pb.MsgAppResp, pb.MsgVote, pb.MsgVoteResp, pb.MsgSnap,
	pb.MsgHeartbeat, pb.MsgHeartbeatResp, pb.MsgUnreachable, pb.MsgSnapStatus, pb.MsgCheckQuorum, pb.MsgTransferLeader, pb.MsgTimeoutNow,
	pb.MsgReadIndex, pb.MsgReadIndexResp, pb.MsgPreVote, pb.MsgPreVoteResp}

func u64(t *rapid.T, l string) uint64 {
	switch rapid.IntRange(0, 3).Draw(t, l+"c") {
	case 0:
		return rapid.Uint64Range(0, 5).Draw(t, l)
	case 1:
		return rapid.SampledFrom([]uint64{0, 1, 127, 128, 1<<32 - 1, 1 << 32, 1<<63 - 1, 1 << 63, 1<<64 - 1}).Draw(t, l)
	default:
		return rapid.Uint64().Draw(t, l)
	}
}

func drawGroup(t *rapid.T, l string) pb.Group {
	return pb.Group{NodeId: u64(t, l+"n"), Name: rapid.SampledFrom([]string{"", "ns-0", "a\x00b", "\xff"}).Draw(t, l+"name"), GroupId: u64(t, l+"g"), RaftReplicaId: u64(t, l+"r")}
}

func genAnyMessage(t *rapid.T, allowBig bool) pb.Message {
	m := pb.Message{Type: rapid.SampledFrom(allTypes).Draw(t, "type")}
	m.To, m.From, m.Term, m.LogTerm, m.Index, m.Commit = u64(t, "to"), u64(t, "from"), u64(t, "term"), u64(t, "lt"), u64(t, "idx"), u64(t, "commit")
	m.Reject = rapid.Bool().Draw(t, "rej")
	m.RejectHint = u64(t, "hint")
	if rapid.Bool().Draw(t, "hasctx") {
		m.Context = drawPayload(t, false)
	}
	m.FromGroup, m.ToGroup = drawGroup(t, "fg"), drawGroup(t, "tg")
	ne := rapid.SampledFrom([]int{0, 0, 1, 2, 4}).Draw(t, "nents")
	for i := 0; i < ne; i++ {
		e := pb.Entry{Term: u64(t, "eterm"), Index: u64(t, "eidx"), Type: pb.EntryType(rapid.IntRange(0, 1).Draw(t, "ety")), ID: u64(t, "eid"),
			DataType: rapid.Int32().Draw(t, "edt"), Timestamp: rapid.Int64().Draw(t, "ets")}
		e.Data = drawPayload(t, allowBig && i == 0)
		m.Entries = append(m.Entries, e)
	}
	if rapid.IntRange(0, 3).Draw(t, "hassnap") == 0 {
		m.Snapshot.Data = drawPayload(t, false)
		m.Snapshot.Metadata.Index, m.Snapshot.Metadata.Term = u64(t, "si"), u64(t, "st")
		cs := &m.Snapshot.Metadata.ConfState
		nn := rapid.IntRange(0, 4).Draw(t, "nnodes")
		for i := 0; i < nn; i++ {
			cs.Nodes = append(cs.Nodes, u64(t, "node"))
			g := drawGroup(t, "csg")
			cs.Groups = append(cs.Groups, &g)
		}
		nl := rapid.IntRange(0, 2).Draw(t, "nlearn")
		for i := 0; i < nl; i++ {
			cs.Learners = append(cs.Learners, u64(t, "learner"))
			g := drawGroup(t, "clg")
			cs.LearnerGroups = append(cs.LearnerGroups, &g)
		}
	}
	return m
}

func encodeMsgs(msgs []pb.Message) ([]byte, []int, error) {
	var buf bytes.Buffer
	enc := rafthttp.VerifNewMessageEncoder(&buf)
	var bounds []int
	for i := range msgs {
		bounds = append(bounds, buf.Len())
		m := msgs[i]
		if err := enc.Encode(&m); err != nil {
			return nil, nil, err
		}
	}
	bounds = append(bounds, buf.Len())
	return buf.Bytes(), bounds, nil
}

func TestMessageRoundTrip(t *testing.T) {
	rapid.Check(t, func(t *rapid.T) {
		n := rapid.IntRange(1, 8).Draw(t, "n")
		var msgs []pb.Message
		rich := false
		for i := 0; i < n; i++ {
			m := genAnyMessage(t, true)
			if len(m.Entries) > 0 || len(m.Snapshot.Metadata.ConfState.Groups) > 0 {
				rich = true
			}
			msgs = append(msgs, m)
		}
		want := make([]string, len(msgs))
		for i := range msgs {
			want[i] = canon(&msgs[i])
		}
		data, _, err := encodeMsgs(msgs)
		if err != nil {
			t.Fatalf("encode: %v", err)
		}
		dec := rafthttp.VerifNewMessageDecoder(bytes.NewReader(data))
		got, err := decodeAll(dec, n)
		if err != nil {
			t.Fatalf("decode after %d of %d messages: %v", len(got), n, err)
		}
		if _, err := dec.Decode(); err != io.EOF {
			t.Fatalf("expected io.EOF after the last message, got %v", err)
		}
		for i := range got {
			if c := canon(&got[i]); c != want[i] {
				t.Fatalf("message %d differs\nsent: %s\nrecv: %s", i, want[i], c)
			}
		}
		recMsg.Record(stats.HashString(strings.Join(want, "\n")), n >= 2 && rich, nil, func() interface{} {
			return map[string]interface{}{"messages": describe(msgs), "stream_bytes": len(data)}
		})
	})
}

// fieldBoundaries returns the stream offsets (relative to the start of the frame payload) at which
// the protobuf encoding of m could be cut between two top-level fields after its k-th entry.
func fieldBoundaries(m pb.Message) []int {
	var out []int
	for k := 0; k <= len(m.Entries); k++ {
		p := pb.Message{Type: m.Type, To: m.To, From: m.From, Term: m.Term, LogTerm: m.LogTerm, Index: m.Index, Entries: m.Entries[:k]}
		out = append(out, p.Size())
	}
	return out
}

func TestMessageTruncation(t *testing.T) {
	rapid.Check(t, func(t *rapid.T) {
		n := rapid.IntRange(1, 4).Draw(t, "n")
		big := rapid.IntRange(0, 9).Draw(t, "bigmsg") == 0
		var msgs []pb.Message
		var inner []int
		for i := 0; i < n; i++ {
			m := genAnyMessage(t, false)
			if big && i == 0 {
				// a message above the decoder's 1 MiB buffer: several entries whose sizes add up beyond it
				m.Entries = nil
				for k := rapid.IntRange(2, 5).Draw(t, "nbig"); k > 0; k-- {
					m.Entries = append(m.Entries, pb.Entry{Term: 1, Index: uint64(10 + k), Data: payload(rapid.SampledFrom([]int{300000, 524288, 700000}).Draw(t, "bigsz"), byte(k))})
				}
			}
			msgs = append(msgs, m)
		}
		if big {
			for _, b := range fieldBoundaries(msgs[0]) {
				inner = append(inner, 8+b) // 8-byte length header of the first frame
			}
		}
		want := make([]string, len(msgs))
		for i := range msgs {
			want[i] = canon(&msgs[i])
		}
		data, bounds, err := encodeMsgs(msgs)
		if err != nil {
			t.Fatalf("encode: %v", err)
		}
		checkTruncations(t, data, bounds, want, func(r io.Reader) rafthttp.VerifDecoder { return rafthttp.VerifNewMessageDecoder(r) }, recMsgTrunc, "message", inner...)
	})
}

// safeDecode runs the decoder over arbitrary bytes; the only oracle is "terminates with
// messages or an error and does not panic" (the stream format has no checksum).
func safeDecode(newDec func(r io.Reader) rafthttp.VerifDecoder, data []byte) (n int, panicked interface{}) {
	defer func() {
		if r := recover(); r != nil {
			panicked = r
		}
	}()
	got, _ := decodeAll(newDec(bytes.NewReader(data)), 1<<20)
	return len(got), nil
}

func TestCorruptStreamNoPanic(t *testing.T) {
	rapid.Check(t, func(t *rapid.T) {
		local, remote := uint64(1), uint64(2)
		useV2 := rapid.Bool().Draw(t, "v2")
		var data []byte
		var starts []int
		if useV2 {
			msgs := genV2Stream(t, local, remote, 5, false)
			d, frames, err := encodeV2(msgs)
			if err != nil {
				t.Fatalf("encode: %v", err)
			}
			data = d
			for _, f := range frames {
				starts = append(starts, f.off)
			}
		} else {
			var msgs []pb.Message
			for i := rapid.IntRange(1, 3).Draw(t, "n"); i > 0; i-- {
				msgs = append(msgs, genAnyMessage(t, false))
			}
			d, b, err := encodeMsgs(msgs)
			if err != nil {
				t.Fatalf("encode: %v", err)
			}
			data, starts = d, b[:len(b)-1]
		}
		data = append([]byte(nil), data...)
		nm := rapid.IntRange(1, 3).Draw(t, "nmut")
		header := false
		var muts []string
		for i := 0; i < nm; i++ {
			var pos int
			if rapid.IntRange(0, 9).Draw(t, "where") < 7 {
				s := starts[rapid.IntRange(0, len(starts)-1).Draw(t, "frame")]
				pos = s + rapid.IntRange(0, 24).Draw(t, "hoff")
				header = true
			} else {
				pos = rapid.IntRange(0, len(data)-1).Draw(t, "pos")
			}
			if pos >= len(data) {
				pos = len(data) - 1
			}
			v := rapid.SampledFrom([]byte{0, 1, 2, 3, 0x40, 0x7f, 0x80, 0xff}).Draw(t, "val")
			if rapid.Bool().Draw(t, "flip") {
				v = data[pos] ^ (1 << uint(rapid.IntRange(0, 7).Draw(t, "bit")))
			}
			muts = append(muts, fmt.Sprintf("[%d]=%#x", pos, v))
			data[pos] = v
		}
		newDec := func(r io.Reader) rafthttp.VerifDecoder {
			if useV2 {
				return rafthttp.VerifNewMsgAppV2Decoder(r, local, remote)
			}
			return rafthttp.VerifNewMessageDecoder(r)
		}
		n, p := safeDecode(newDec, data)
		if p != nil {
			t.Fatalf("decoder panicked on a corrupted stream (%d bytes, mutations %v, v2=%v): %v", len(data), muts, useV2, p)
		}
		recCorrupt.Record(stats.Hash(data), header, nil, func() interface{} {
			return map[string]interface{}{"v2": useV2, "stream_bytes": len(data), "mutations": muts, "messages_before_error": n}
		})
	})
}

// Regression probes for findings on this property (see /verif/known_findings.json).
func TestKnownMsgAppV2HugeLength(t *testing.T) {
	known.Probe(t, "C16-msgappv2-unchecked-length", func() (bool, string) {
		cases := map[string][]byte{
			"type-2 frame announcing 2^62 bytes":            append([]byte{2}, 0x40, 0, 0, 0, 0, 0, 0, 0),
			"type-2 frame announcing 2^64-1 bytes":          append([]byte{2}, 0xff, 0xff, 0xff, 0xff, 0xff, 0xff, 0xff, 0xff),
		}
		// a valid full frame, then a continuation frame announcing 2^62 entries / one entry of 2^62 bytes
		g1 := pb.Group{NodeId: 2, GroupId: 1, RaftReplicaId: 1}
		g2 := pb.Group{NodeId: 1, GroupId: 1, RaftReplicaId: 2}
		first := pb.Message{Type: pb.MsgApp, From: 1, To: 2, Term: 1, LogTerm: 1, Index: 1, FromGroup: g1, ToGroup: g2}
		head, _, _ := encodeV2([]pb.Message{first})
		cases["continuation frame announcing 2^62 entries"] = append(append([]byte(nil), head...), 1, 0x40, 0, 0, 0, 0, 0, 0, 0)
		cases["continuation frame with one entry of 2^62 bytes"] = append(append([]byte(nil), head...), 1, 0, 0, 0, 0, 0, 0, 0, 1, 0x40, 0, 0, 0, 0, 0, 0, 0)
		for name, data := range cases {
			_, p := safeDecode(func(r io.Reader) rafthttp.VerifDecoder { return rafthttp.VerifNewMsgAppV2Decoder(r, 1, 2) }, data)
			if p != nil {
				return true, fmt.Sprintf("%s: decoder panics: %v", name, p)
			}
		}
		return false, ""
	})
}

func FuzzMsgAppV2Decode(f *testing.F) {
	g1 := pb.Group{NodeId: 2, GroupId: 1, RaftReplicaId: 1}
	g2 := pb.Group{NodeId: 1, GroupId: 1, RaftReplicaId: 2}
	m1 := pb.Message{Type: pb.MsgApp, From: 1, To: 2, Term: 1, LogTerm: 1, Index: 1, FromGroup: g1, ToGroup: g2, Entries: []pb.Entry{{Term: 1, Index: 2, Data: []byte("x")}}}
	m2 := pb.Message{Type: pb.MsgApp, From: 1, To: 2, Term: 1, LogTerm: 1, Index: 2, FromGroup: g1, ToGroup: g2, Entries: []pb.Entry{{Term: 1, Index: 3, Data: []byte("yy")}}}
	seed, _, _ := encodeV2([]pb.Message{m1, m2, rafthttp.VerifLinkHeartbeat()})
	f.Add(seed)
	f.Add([]byte{2, 0, 0, 0, 0, 0, 0, 0, 0})
	f.Add([]byte{1, 0, 0, 0, 0, 0, 0, 0, 1, 0, 0, 0, 0, 0, 0, 0, 0, 0, 0, 0, 0, 0, 0, 0, 0})
	f.Fuzz(func(t *testing.T, data []byte) {
		if len(data) > 1<<16 {
			return
		}
		// lengths above 64 MiB are legal for the decoder (limit 512 MiB) but make the
		// campaign allocate gigabytes per second; they are covered by the regression probe
		_, p := safeDecode(func(r io.Reader) rafthttp.VerifDecoder { return rafthttp.VerifNewMsgAppV2Decoder(r, 1, 2) }, data)
		if p != nil {
			t.Fatalf("msgappv2 decoder panicked: %v", p)
		}
	})
}

func FuzzMessageDecode(f *testing.F) {
	m := pb.Message{Type: pb.MsgVote, From: 1, To: 2, Term: 3}
	seed, _, _ := encodeMsgs([]pb.Message{m, m})
	f.Add(seed)
	f.Fuzz(func(t *testing.T, data []byte) {
		if len(data) > 1<<16 {
			return
		}
		_, p := safeDecode(func(r io.Reader) rafthttp.VerifDecoder { return rafthttp.VerifNewMessageDecoder(r) }, data)
		if p != nil {
			t.Fatalf("message decoder panicked: %v", p)
		}
	})
}

var _ = os.Getenv
