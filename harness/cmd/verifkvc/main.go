// Command verifkvc is one data-node process of the C04 cluster check.
//
// It builds a server.Server from a JSON config exactly as apps/zankv does (NewServer,
// InitKVNamespace, Start), except that the etcd-backed cluster coordinator is replaced
// by a static member / snapshot-sync table (as server_test.go's fakeClusterInfo does),
// so that snapshot catch-up between local processes works without etcd. Next to the
// production redis / HTTP / raft listeners it opens a small control listener:
//
//	GET /status            leader, term, commit, applied, snapshot index, readiness
//	GET /transfer?to=<id>  KVNode.TransferLeadership (production has no HTTP route)
//
// SIGTERM / SIGINT stop the server gracefully; everything else about the process
// (kill -9, SIGSTOP) is the harness's business.
package main

import (
	"encoding/json"
	"flag"
	"fmt"
	"io/ioutil"
	"net"
	"net/http"
	"os"
	"os/signal"
	"strconv"
	"syscall"

	"github.com/youzan/ZanRedisDB/common"
	"github.com/youzan/ZanRedisDB/node"
	"github.com/youzan/ZanRedisDB/server"
	"github.com/youzan/ZanRedisDB/wal"
)

type conf struct {
	Server    server.ServerConfig       `json:"server"`
	Namespace node.NamespaceConfig      `json:"namespace"`
	ReplicaID uint64                    `json:"replica_id"`
	SnapSyncs []common.SnapshotSyncInfo `json:"snap_syncs"`
	CtlPort   int                       `json:"ctl_port"`
	// wal.SegmentSizeBytes (the package variable etcd's own tests shrink): a small value
	// makes segment cuts and purges happen within one history. 0 keeps the default.
	WALSegmentBytes int64 `json:"wal_segment_bytes"`
}

type clusterInfo struct{ syncs []common.SnapshotSyncInfo }

func (c *clusterInfo) GetClusterName() string { return "verif" }
func (c *clusterInfo) GetSnapshotSyncInfo(fullNS string) ([]common.SnapshotSyncInfo, error) {
	return c.syncs, nil
}
func (c *clusterInfo) UpdateMeForNamespaceLeader(fullNS string) (bool, error) { return false, nil }

func die(format string, a ...interface{}) {
	fmt.Fprintf(os.Stderr, "verifkvc: "+format+"\n", a...)
	os.Exit(3)
}

func main() {
	cf := flag.String("config", "", "config file (json)")
	flag.Parse()
	d, err := ioutil.ReadFile(*cf)
	if err != nil {
		die("read config: %v", err)
	}
	var c conf
	if err := json.Unmarshal(d, &c); err != nil {
		die("parse config: %v", err)
	}
	// the control listener is bound first: a port clash is then reported before any
	// data directory is touched
	ln, err := net.Listen("tcp", "127.0.0.1:"+strconv.Itoa(c.CtlPort))
	if err != nil {
		die("control listener: %v", err)
	}
	if c.WALSegmentBytes > 0 {
		wal.SegmentSizeBytes = c.WALSegmentBytes
	}
	s, err := server.NewServer(c.Server)
	if err != nil {
		die("NewServer: %v", err)
	}
	s.GetNsMgr().SetIClusterInfo(&clusterInfo{syncs: c.SnapSyncs})
	if _, err := s.InitKVNamespace(c.ReplicaID, &c.Namespace, false); err != nil {
		die("InitKVNamespace: %v", err)
	}
	s.Start()

	mux := http.NewServeMux()
	mux.HandleFunc("/status", func(w http.ResponseWriter, r *http.Request) {
		nn := s.GetNamespaceFromFullName(c.Namespace.Name)
		if nn == nil || nn.Node == nil {
			http.Error(w, "no namespace", 503)
			return
		}
		lead := uint64(0)
		if lm := nn.Node.GetLeadMember(); lm != nil {
			lead = lm.ID
		}
		st := nn.Node.GetRaftStatus()
		fmt.Fprintf(w, `{"id":%d,"ready":%v,"is_lead":%v,"lead":%d,"raft_lead":%d,"term":%d,"commit":%d,"applied":%d,"raft_applied":%d,"snap":%d,"state":%q,"write_ready":%v}`,
			c.ReplicaID, nn.IsReady(), nn.Node.IsLead(), lead, st.Lead, st.Term, st.Commit, nn.Node.GetAppliedIndex(), st.Applied,
			nn.Node.GetLastSnapIndex(), st.RaftState.String(), nn.Node.IsWriteReady())
	})
	mux.HandleFunc("/transfer", func(w http.ResponseWriter, r *http.Request) {
		to, _ := strconv.ParseUint(r.URL.Query().Get("to"), 10, 64)
		nn := s.GetNamespaceFromFullName(c.Namespace.Name)
		if nn == nil || nn.Node == nil {
			http.Error(w, "no namespace", 503)
			return
		}
		err := nn.Node.TransferLeadership(to)
		if err != nil {
			fmt.Fprintf(w, "err: %v", err)
			return
		}
		fmt.Fprintf(w, "ok")
	})
	go http.Serve(ln, mux)

	sig := make(chan os.Signal, 1)
	signal.Notify(sig, syscall.SIGTERM, syscall.SIGINT)
	<-sig
	s.Stop()
}
