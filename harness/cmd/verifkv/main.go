// verifkv is one ZanRedisDB data-node process for the process-level checks (C04, C06):
// the production server (server.NewServer, real raft, real WAL, real engine) built from a
// JSON config exactly as apps/zankv does, plus
//   - a fake IClusterInfo with a static snapshot-sync table (so snapshot catch-up between
//     local processes works without etcd), and
//   - a small control listener next to the production HTTP API:
//     /status            {"ready","full_ready","is_lead","lead","applied","snap_index","pid"}
//     /transfer?to=<id>  KVNode.TransferLeadership (production has no HTTP route for it)
//
// It must be built with -tags verif (crash points of internal/verifhook are then live and
// selected by VERIF_CRASH / VERIF_CRASH_LOG).
package main

import (
	"encoding/json"
	"flag"
	"fmt"
	"io/ioutil"
	"net"
	"net/http"
	"os"
	"os/signal"
	"strconv"
	"syscall"

	"github.com/youzan/ZanRedisDB/common"
	"github.com/youzan/ZanRedisDB/node"
	"github.com/youzan/ZanRedisDB/server"
	"github.com/youzan/ZanRedisDB/wal"
)

type conf struct {
	Server          server.ServerConfig       `json:"server"`
	Namespace       node.NamespaceConfig      `json:"namespace"`
	ReplicaID       uint64                    `json:"replica_id"`
	SnapSyncs       []common.SnapshotSyncInfo `json:"snap_syncs"`
	CtlPort         int                       `json:"ctl_port"`
	WALSegmentBytes int64                     `json:"wal_segment_bytes"`
}

type clusterInfo struct{ syncs []common.SnapshotSyncInfo }

func (c *clusterInfo) GetClusterName() string { return "verif" }
func (c *clusterInfo) GetSnapshotSyncInfo(fullNS string) ([]common.SnapshotSyncInfo, error) {
	return c.syncs, nil
}
func (c *clusterInfo) UpdateMeForNamespaceLeader(fullNS string) (bool, error) { return false, nil }

func fatal(f string, a ...interface{}) {
	fmt.Fprintf(os.Stderr, "VERIFKV-FATAL: "+f+"\n", a...)
	os.Exit(3)
}

func main() {
	cf := flag.String("config", "", "json config file")
	flag.Parse()
	d, err := ioutil.ReadFile(*cf)
	if err != nil {
		fatal("read config: %v", err)
	}
	var c conf
	if err := json.Unmarshal(d, &c); err != nil {
		fatal("parse config: %v", err)
	}
	if c.WALSegmentBytes > 0 {
		wal.SegmentSizeBytes = c.WALSegmentBytes
	}
	// control listener first: if the port is taken the harness must know before any data is touched
	ln, err := net.Listen("tcp", "127.0.0.1:"+strconv.Itoa(c.CtlPort))
	if err != nil {
		fatal("ctl listen: %v", err)
	}
	s, err := server.NewServer(c.Server)
	if err != nil {
		fatal("NewServer: %v", err)
	}
	s.GetNsMgr().SetIClusterInfo(&clusterInfo{syncs: c.SnapSyncs})
	// the node object is kept: the manager's lookups hide a namespace that is not ready
	nn, err := s.InitKVNamespace(c.ReplicaID, &c.Namespace, false)
	if err != nil {
		fatal("InitKVNamespace: %v", err)
	}
	mux := http.NewServeMux()
	mux.HandleFunc("/status", func(w http.ResponseWriter, r *http.Request) {
		// a namespace whose Start failed (the error is dropped by NamespaceMgr.Start, as in production)
		// stays not-ready for ever; its raft node must not be touched then
		ready := nn.IsReady()
		lead := uint64(0)
		full := false
		if ready {
			if lm := nn.Node.GetLeadMember(); lm != nil {
				lead = lm.ID
			}
			full = nn.IsNsNodeFullReady(true)
		}
		fmt.Fprintf(w, `{"ready":%v,"full_ready":%v,"is_lead":%v,"lead":%d,"applied":%d,"snap_index":%d,"pid":%d}`,
			ready, full, ready && nn.Node.IsLead(), lead, nn.Node.GetAppliedIndex(), nn.Node.GetLastSnapIndex(), os.Getpid())
	})
	mux.HandleFunc("/transfer", func(w http.ResponseWriter, r *http.Request) {
		to, _ := strconv.ParseUint(r.URL.Query().Get("to"), 10, 64)
		err := nn.Node.TransferLeadership(to)
		fmt.Fprintf(w, "%v", err)
	})
	go http.Serve(ln, mux)
	s.Start()
	sig := make(chan os.Signal, 1)
	signal.Notify(sig, syscall.SIGTERM, syscall.SIGINT)
	<-sig
	s.Stop()
}
